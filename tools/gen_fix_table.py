#!/usr/bin/env python3
"""Refreshes the table of repaired defects in DESIGN.md section 12.2 from known_findings.json."""
import json, re
d = json.load(open('/verif/known_findings.json'))
rows = []
for e in d['fixed']:
    m = re.match(r'fixed: property=(\S+) (\S+) (.*)$', e)
    txt = re.sub(r'\s*\(replays/[^)]*\)\s*$', '', m.group(3))
    txt = re.sub(r'\s*\(found by the determinism gate.*$', '', txt)
    rows.append('| %s | `%s` | %s |' % (m.group(1), m.group(2), txt))
rows.sort(key=lambda r: r[:6])
table = '| property | commit | what failed |\n|----------|--------|-------------|\n' + '\n'.join(rows) + '\n'
p = '/verif/DESIGN.md'
s = open(p).read()
a = s.index('| property | commit | what failed |')
b = s.index('\n\n', a)
s = s[:a] + table.rstrip('\n') + s[b:]
open(p, 'w').write(s)
print(len(rows), 'rows')
