#!/bin/bash
# usage: c14_mkreplay.sh <seed> <fail_at> <class> <out.json>   (development aid: replay file for one failing index)
set -e
/verif/build/asan/sim/simbin --profile C14 --seed $1 --plan-only | sed 's/^PLAN //' | python3 -c "
import json,sys
d=json.load(sys.stdin); d['cfg']['knobs']['fail_at']=$2
d['violation']=dict(cls='$3', property='C14', detail='scenario seed $1, allocation #$2 failed', first_seed=$1)
d['flavor']='asan'
json.dump(d,open('$4','w'),indent=1)"
