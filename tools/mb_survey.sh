#!/bin/bash
# usage: mb_survey.sh <flavor> <profile> <first seed> <count>  (development aid: distinct outcomes of Mode-B runs)
bin=/verif/build/$1/sim/simbin
seq $3 $(($3+$4-1)) | xargs -P 14 -I{} sh -c "timeout 120 $bin --profile $2 --seed {} --count 1 > /var/tmp/mb_{}.out 2> /var/tmp/mb_{}.err; echo \"EXIT {} \$?\" >> /var/tmp/mb_{}.out"
cat /var/tmp/mb_*.out | python3 -c "
import sys,json,re
seen={}; ex={}
for l in sys.stdin:
    if l.startswith('EXIT'):
        _,s,c=l.split(); ex[c]=ex.get(c,0)+1
        if c not in ('0','3'): seen.setdefault('EXITCODE '+c,[0,s,''])[0]+=1
    if l.startswith('RUN '):
        d=json.loads(l[4:])
        for v in d['viol']:
            k=v['prop']+':'+v['oracle']
            seen.setdefault(k,[0,d['seed'],v['detail'][:600]]); seen[k][0]+=1
print('exit codes',ex)
for k,v in sorted(seen.items(), key=lambda kv:-kv[1][0]): print(v[0],v[1],k,'\n      ',v[2])
"
grep -l "ThreadSanitizer\|AddressSanitizer\|runtime error" /var/tmp/mb_*.err 2>/dev/null | head -5
rm -f /var/tmp/mb_*.out
