#!/usr/bin/env python3
"""Development aid: enumerate C14 scenarios, resume after sanitizer deaths, group findings by site.
usage: c14_triage.py <first seed> <count> [max_subs]"""
import sys, os, re, json, subprocess, concurrent.futures as cf
sys.path.insert(0, '/verif/driver')
import simdriver
BIN = os.environ.get('SIMBIN', '/verif/build/asan/sim/simbin')

def scenario(seed, max_subs):
    found = []
    sub_from = 0
    while True:
        cmd = [BIN, '--profile', 'C14', '--seed', str(seed), '--count', '1']
        if max_subs: cmd += ['--max-subs', str(max_subs)]
        if sub_from: cmd += ['--sub-from', str(sub_from)]
        env = dict(os.environ, SIM_ALLOC_BT='1')
        p = subprocess.run(cmd, stdout=subprocess.PIPE, stderr=subprocess.PIPE, text=True, env=env)
        for ln in p.stdout.splitlines():
            if ln.startswith('RUN '):
                d = json.loads(ln[4:])
                for v in d['viol']:
                    if v['prop'] != 'C14': continue
                    m = re.search(r'allocated in (.*)$', v['detail'])
                    key = v['oracle'] + ' | ' + (m.group(1) if m else re.sub(r'#?\d+', 'N', v['detail'])[:160])
                    found.append((key, seed, d.get('sub'), v['detail'][:300]))
        if p.returncode == 0:
            break
        m = re.search(r'SIM-(?:DIED|WATCHDOG) profile=\S+ seed=(\d+) sub=(-?\d+)', p.stderr)
        sig = simdriver.sanitizer_signature(p.stderr) or ('exit%d' % p.returncode)
        sub = int(m.group(2)) if m else -1
        found.append(('DEATH ' + sig, seed, sub, ''))
        if sub <= 0:
            break
        sub_from = sub + 1
    return found

def main():
    s0, n = int(sys.argv[1]), int(sys.argv[2])
    ms = int(sys.argv[3]) if len(sys.argv) > 3 else 0
    agg = {}
    with cf.ThreadPoolExecutor(14) as ex:
        for res in ex.map(lambda s: scenario(s, ms), range(s0, s0 + n)):
            for key, seed, sub, det in res:
                a = agg.setdefault(key, [0, (seed, sub, det)])
                a[0] += 1
    for k, v in sorted(agg.items(), key=lambda kv: -kv[1][0]):
        print('%5d  %s\n         e.g. seed=%s sub=%s %s' % (v[0], k, v[1][0], v[1][1], v[1][2][:200]))
main()
