#!/bin/bash
# usage: c14_asan.sh <seed> <sub>: prints the c-ares frames of the sanitizer report for one failing index
tmp=$(mktemp /var/tmp/c14r.XXXX.json)
/verif/tools/c14_mkreplay.sh $1 $2 x $tmp
/verif/build/asan/sim/simbin --replay $tmp 2>&1 >/dev/null | grep -E "^\s+#[0-9]+|^freed by|^previously|ERROR|runtime error" | grep -v "std::\|libc.so\|_start\|interceptor" | head -${3:-60} | sed 's/(BuildId.*//' | cut -c1-170
rm -f $tmp
