#!/bin/bash
# usage: c16_survey.sh <profile> <first seed> <count>: distinct violation classes of one profile (development aid)
/verif/build/asan/sim/simbin --profile $1 --seed $2 --count $3 2>&1 | grep "^RUN" | grep -v '"viol":\[\]' | python3 -c "
import sys,json,re
seen={}
for l in sys.stdin:
    d=json.loads(l[4:])
    for v in d['viol']:
        if v['prop']!='$1': continue
        k=v['oracle']+' | '+re.sub(r'\d+','N',v['detail'])[:100]
        seen.setdefault(k,[0,d['seed'],v['detail'][:420]]); seen[k][0]+=1
for k,v in sorted(seen.items(), key=lambda kv:-kv[1][0]): print(v[0],v[1],k,'\n      ',v[2])
"
