#!/bin/bash
# usage: c14_where.sh <seed> <fail_at> <alloc index to locate> [more indices...]
# prints the call stacks of the given allocator calls in the execution of scenario <seed> with allocation <fail_at> failing
set -e
seed=$1; fail=$2; shift 2
bin=/verif/build/asan/sim/simbin
tmp=$(mktemp -d /var/tmp/c14w.XXXX)
$bin --profile C14 --seed $seed --plan-only | sed 's/^PLAN //' | python3 -c "
import json,sys
d=json.load(sys.stdin); d['cfg']['knobs']['fail_at']=$fail; json.dump(d,open('$tmp/r.json','w'))"
cond=""
for i in "$@"; do cond="$cond${cond:+ || }g_alloc.calls == $((i-1))"; done
{ echo "set pagination off"; echo "break l_malloc if $cond"; echo "break l_realloc if $cond"; echo run; for i in "$@"; do echo "bt 14"; echo continue; done; } > $tmp/cmds
gdb -q -batch -x $tmp/cmds --args $bin --replay $tmp/r.json 2>&1 | grep -E "^#|^Breakpoint [0-9]+," | grep -v "std::\|invoke" 
rm -rf $tmp
