#!/usr/bin/env python3
"""usage: store_seed.py <ID> <round letter> <verify json> <needs text>: copies /tmp/seed_<ID>_<r>/seed_out into seeded/<ID>-<r> with meta.json and removes the worktree"""
import sys, json, shutil, subprocess, os
pid, rnd, ver, needs = sys.argv[1], sys.argv[2], json.loads(sys.argv[3]), sys.argv[4]
src = '/tmp/seed_%s_%s/seed_out' % (pid, rnd)
dst = '/verif/seeded/%s-%s' % (pid, rnd)
os.makedirs(dst, exist_ok=True)
for f in os.listdir(src):
    shutil.copy(os.path.join(src, f), os.path.join(dst, f))
meta = dict(property=pid, needs=needs, origin="independent sub-agent given only the property text and a scratch worktree (round %s, against the tree with all fixes up to %s)" % (rnd, subprocess.run(['git','-C','/tmp/seed_%s_%s' % (pid, rnd),'rev-parse','--short','HEAD'],stdout=subprocess.PIPE,text=True).stdout.strip()),
            confirmed=ver, how_confirmed="tools/verify_seed.sh in the agent's scratch worktree: pristine demo exit 0; with patch: library and tests build, arestest --gtest_filter=-*Live* all passed, aresfuzz/aresfuzzname pass, demo exit != 0")
json.dump(meta, open(os.path.join(dst, 'meta.json'), 'w'), indent=1)
subprocess.run(['git', '-C', '/repo', 'worktree', 'remove', '--force', '/tmp/seed_%s_%s' % (pid, rnd)])
print('stored', dst)
