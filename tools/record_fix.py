#!/usr/bin/env python3
"""usage: record_fix.py <prop> <replay file(s), comma separated> <text>: commit already made in /repo (HEAD); adds the 'fixed' entry and the revert mutant."""
import sys, json, subprocess
prop, replays, text = sys.argv[1], sys.argv[2], sys.argv[3]
h = subprocess.run(['git', '-C', '/repo', 'log', '--format=%h', '-1'], stdout=subprocess.PIPE, text=True).stdout.strip()
d = json.load(open('/verif/known_findings.json'))
d['fixed'].append('fixed: property=%s %s %s (%s)' % (prop, h, text, ', '.join(replays.split(','))))
json.dump(d, open('/verif/known_findings.json', 'w'), indent=1)
diff = subprocess.run(['git', '-C', '/repo', 'diff', 'HEAD~1', 'HEAD', '-R'], stdout=subprocess.PIPE, text=True).stdout
open('/verif/mutants/%s-revert-%s.patch' % (prop, h), 'w').write(diff)
print('recorded', h)
