#!/usr/bin/env python3
"""Development aid: enumerate C14B scenarios (one process per failing index) and group findings by class and failure site.
usage: c14b_triage.py <first seed> <count> [max_subs]"""
import sys, os, re, json, subprocess, concurrent.futures as cf
sys.path.insert(0, '/verif/driver')
import simdriver
BIN = os.environ.get('SIMBIN', '/verif/build/asan/sim/simbin')
def one(seed, n):
    cmd = [BIN, '--profile', 'C14B', '--seed', str(seed), '--count', '1'] + (['--fail-at', str(n)] if n else [])
    try:
        p = subprocess.run(cmd, stdout=subprocess.PIPE, stderr=subprocess.PIPE, text=True, env=dict(os.environ, SIM_ALLOC_BT='1'), timeout=120)
    except subprocess.TimeoutExpired:
        return None, 'TIMEOUT', ''
    rec = None
    for ln in p.stdout.splitlines():
        if ln.startswith('RUN '):
            rec = json.loads(ln[4:])
    site = ''
    m = re.search(r'ALLOCFAIL #\d+ in (.*)', p.stderr)
    if m: site = m.group(1)
    death = None
    if p.returncode not in (0, 3) or rec is None:
        death = simdriver.sanitizer_signature(p.stderr) or ('exit%d' % p.returncode)
    return rec, death, site
def scenario(seed, max_subs):
    found = []
    rec, death, _ = one(seed, 0)
    if rec is None: return [('REFERENCE ' + str(death), seed, 0, '')]
    for v in rec['viol']: found.append(('REF ' + v['prop'] + ':' + v['oracle'], seed, 0, v['detail'][:200]))
    n_alloc = int(rec['probe'].get('alloc_calls', 0))
    subs = list(range(1, n_alloc + 1))
    if max_subs and n_alloc > max_subs:
        step = n_alloc / float(max_subs); subs = sorted(set(min(n_alloc, 1 + int(k * step)) for k in range(max_subs)))
    for n in subs:
        rec, death, site = one(seed, n)
        if death: found.append(('DEATH ' + death + ' @ ' + site, seed, n, ''))
        if rec:
            for v in rec['viol']:
                found.append((v['prop'] + ':' + v['oracle'] + ' @ ' + site, seed, n, v['detail'][:260]))
    return found
def main():
    s0, n = int(sys.argv[1]), int(sys.argv[2]); ms = int(sys.argv[3]) if len(sys.argv) > 3 else 0
    agg = {}
    with cf.ThreadPoolExecutor(14) as ex:
        for res in ex.map(lambda s: scenario(s, ms), range(s0, s0 + n)):
            for key, seed, sub, det in res:
                a = agg.setdefault(key, [0, (seed, sub, det)]); a[0] += 1
    for k, v in sorted(agg.items(), key=lambda kv: -kv[1][0]):
        print('%5d  %s\n         e.g. seed=%s sub=%s %s' % (v[0], k, v[1][0], v[1][1], v[1][2][:220]))
main()
