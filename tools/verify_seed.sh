#!/bin/bash
# Confirm a seeded change in its scratch worktree: pristine demo passes; with patch: compiles, suite passes, demo fails.
# usage: verify_seed.sh <worktree> ; prints a one-line JSON verdict
WT=$1
cd $WT || exit 2
git checkout -- src include 2>/dev/null
[ -d _b ] || cmake -G Ninja -S $WT -B $WT/_b -DCARES_BUILD_TESTS=ON -DCARES_BUILD_TOOLS=OFF -DCMAKE_BUILD_TYPE=RelWithDebInfo >/dev/null 2>&1
cmake --build _b -j8 >/dev/null 2>&1 || { echo '{"ok":false,"why":"pristine build failed"}'; exit 1; }
DEMO=$(ls seed_out/demo.c seed_out/demo.cc 2>/dev/null | head -1)
CC=cc; case $DEMO in *.cc) CC=c++;; esac
$CC -Wall -Wno-deprecated-declarations -O1 -g -I$WT/include -I$WT/_b -I$WT/src/lib -I$WT/src/lib/include $DEMO -o _b/demo_verify -L$WT/_b/lib -lcares -lpthread -Wl,-rpath,$WT/_b/lib >/dev/null 2>_b/demo_build.err || { echo '{"ok":false,"why":"demo does not compile"}'; exit 1; }
timeout 300 _b/demo_verify >_b/demo_pristine.out 2>&1; P=$?
git apply seed_out/patch.diff || { echo '{"ok":false,"why":"patch does not apply"}'; exit 1; }
cmake --build _b -j8 >/dev/null 2>_b/patched_build.err || { git checkout -- src include; echo '{"ok":false,"why":"patched build failed"}'; exit 1; }
timeout 300 _b/demo_verify >_b/demo_patched.out 2>&1; Q=$?
timeout 1200 _b/bin/arestest --gtest_filter=-*Live* > _b/suite_patched.out 2>&1; S=$?
PASSED=$(grep -c "^\[  PASSED  \]" _b/suite_patched.out); NF=$(grep -c "^\[  FAILED  \]" _b/suite_patched.out)
NP=$(grep "^\[  PASSED  \]" _b/suite_patched.out | grep -o "[0-9]*" | head -1)
( cd _b && timeout 600 ctest -R "aresfuzz" >/dev/null 2>&1 ); F=$?
git checkout -- src include
cmake --build _b -j8 >/dev/null 2>&1
OK=false; [ $P = 0 ] && [ $Q != 0 ] && [ $S = 0 ] && [ "$NF" = 0 ] && [ $F = 0 ] && OK=true
echo "{\"ok\":$OK,\"demo_pristine_exit\":$P,\"demo_patched_exit\":$Q,\"suite_exit\":$S,\"suite_passed\":${NP:-0},\"suite_failed_lines\":$NF,\"fuzz_targets_exit\":$F}"
