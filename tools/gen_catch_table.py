#!/usr/bin/env python3
"""Rebuilds DESIGN.md section 12.7 from the logs of `./check selftest seeded` and `./check selftest mutants`.
usage: gen_catch_table.py <seeded log> <mutants log>"""
import sys, re, json, os
rows = {}
for path in sys.argv[1:]:
    for ln in open(path):
        m = re.match(r'^(\S+)\s+(C\d\d)\s+(CAUGHT|MISSED|exit \d+|patch does not apply|no check)(?: in (\d+)s)?\s*(?:class=(\S+))?', ln)
        if not m: continue
        name = m.group(1).replace('.patch', '')
        rows[name] = (m.group(2), m.group(3), m.group(5) or '')
def what(name):
    d = '/verif/seeded/' + name
    if os.path.isdir(d):
        try: return json.load(open(d + '/meta.json'))['needs']
        except Exception: return ''
    kf = json.load(open('/verif/known_findings.json'))
    m = re.match(r'C\d\d-revert-(\w+)', name)
    if m:
        for e in kf['fixed']:
            if ' ' + m.group(1) + ' ' in e:
                return 'reverse of fix ' + m.group(1) + ': ' + re.sub(r'\s*\(replays/[^)]*\)\s*$', '', e.split(m.group(1) + ' ', 1)[1])
    return 'hand-written mutant'
out = ['| change | check | result | violation class reported | what the change does / needs |', '|---|---|---|---|---|']
for name in sorted(rows, key=lambda n: (rows[n][0], n)):
    prop, res, cls = rows[name]
    cls = cls.replace('|', '/')
    if len(cls) > 70: cls = cls[:67] + '...'
    w = what(name).replace('|', '/')
    if len(w) > 230: w = w[:227] + '...'
    kind = 'seeded ' + name if os.path.isdir('/verif/seeded/' + name) else 'mutant ' + name
    out.append('| %s | %s | %s | `%s` | %s |' % (kind, prop, res, cls, w))
caught = sum(1 for r in rows.values() if r[1] == 'CAUGHT')
out.append('')
out.append('%d of %d changes are caught by the quick tier of the owning check.' % (caught, len(rows)))
table = '\n'.join(out)
p = '/verif/DESIGN.md'
s = open(p).read()
start = s.index('### 12.7 Which check catches which seeded change / reverse patch')
end = s.index('### 12.8 Actual sizes and cost')
head = '''### 12.7 Which check catches which seeded change / reverse patch

Produced by `tools/gen_catch_table.py` from the logs of `./check selftest seeded` and `./check selftest mutants`
(each applies the change to a scratch tree, runs the registered quick check and expects a VIOLATION).
"seeded" = change written by an independent sub-agent that was given only the property text (kept under
`seeded/<id>/` with its demonstration); "mutant" = reverse patch of a repaired defect or a hand-written mutation.

'''
notes = open('/verif/tools/catch_notes.md').read() if os.path.exists('/verif/tools/catch_notes.md') else ''
s = s[:start] + head + table + '\n\n' + notes + '\n' + s[end:]
open(p, 'w').write(s)
print(table[:600])
