#!/bin/bash
# usage: c14_survey.sh <first seed> <count>: distinct violation sites over scenarios (development aid)
s0=$1; n=$2
seq $s0 $((s0+n-1)) | SIM_ALLOC_BT=1 xargs -P 14 -I{} sh -c '/verif/build/asan/sim/simbin --profile C14 --seed {} --count 1 --max-subs ${MAXSUBS:-0} 2>/var/tmp/c14_err_{}.txt | grep "^RUN" | grep -v "\"viol\":\[\]" > /var/tmp/c14_out_{}.txt; grep -h "SIM-DIED\|SUMMARY: AddressSanitizer\|runtime error" /var/tmp/c14_err_{}.txt | head -3 >> /var/tmp/c14_out_{}.txt; rm -f /var/tmp/c14_err_{}.txt'; cat /var/tmp/c14_out_*.txt | python3 -c "
import sys,json,re
seen={}
for l in sys.stdin:
    if not l.startswith('RUN '):
        k='DEATH '+l.strip()[:160]; seen.setdefault(k,[0,None]); seen[k][0]+=1; continue
    d=json.loads(l[4:])
    for v in d['viol']:
        if v['prop']!='C14': continue
        det=v['detail']
        m=re.search(r'allocated in (.*)\$',det)
        k=v['oracle']+' | '+(m.group(1) if m else re.sub(r'#?\d+','N',det)[:150])
        seen.setdefault(k,[0,(d['seed'],d.get('sub'),det[:260])]); seen[k][0]+=1
for k,v in sorted(seen.items(), key=lambda kv:-kv[1][0]): print(v[0],k,v[1])
"
rm -f /var/tmp/c14_out_*.txt
