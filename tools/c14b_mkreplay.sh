#!/bin/bash
# usage: c14b_mkreplay.sh <seed> <fail_at> <class> <out.json>   (development aid: Mode-B replay file for one failing index)
set -e
/verif/build/asan/sim/simbin --profile C14B --seed $1 --plan-only | sed 's/^PLAN //' | python3 -c "
import json,sys
d=json.load(sys.stdin); d['cfg']['knobs']['fail_at']=$2
d['violation']=dict(cls='$3', property='C14', detail='threaded scenario seed $1, allocation #$2 failed', first_seed=$1)
d['flavor']='asan'
json.dump(d,open('$4','w'),indent=1)"
