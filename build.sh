#!/bin/bash
# Build (incrementally) c-ares from /repo's working tree with the hook guard on, redirect its
# OS imports to the simulator with objcopy, and link the simulator.  Usage: build.sh asan|tsan
set -e
FLAVOR=${1:-asan}
ROOT=$(cd "$(dirname "$0")" && pwd)
REPO=${VERIF_REPO:-/repo}
B=$ROOT/build/$FLAVOR${VERIF_BUILD_TAG:-}
SIM=$ROOT/sim
mkdir -p $ROOT/build
exec 9>$ROOT/build/.lock.$FLAVOR${VERIF_BUILD_TAG:-}
flock 9

case $FLAVOR in
  asan) SAN="-fsanitize=address,undefined -fno-sanitize-recover=undefined -fno-omit-frame-pointer"; HSAN="$SAN" ;;
  tsan) SAN="-fsanitize=thread -fno-omit-frame-pointer"; HSAN="" ;;
  plain) SAN=""; HSAN="" ;;
  *) echo "unknown flavor $FLAVOR" >&2; exit 2 ;;
esac
# -ftrivial-auto-var-init=pattern: uninitialised stack variables get a fixed poison pattern, so a read of one is
# deterministic (replayable) and usually loud under ASan instead of depending on stack garbage
CFLAGS_LIB="$SAN -O1 -g -DCARES_VERIF_SIM -ftrivial-auto-var-init=pattern"
# the plain flavour is run under valgrind memcheck, which must see genuinely uninitialised memory
[ $FLAVOR = plain ] && CFLAGS_LIB="-O1 -g -DCARES_VERIF_SIM"

if [ ! -f $B/build.ninja ] || [ "$(cat $B/.repo 2>/dev/null)" != "$REPO" ]; then
  rm -rf $B
  cmake -G Ninja -S $REPO -B $B -DCMAKE_C_COMPILER=clang -DCMAKE_BUILD_TYPE=None -DCARES_STATIC=ON -DCARES_SHARED=OFF \
    -DCARES_BUILD_TOOLS=OFF -DCARES_BUILD_TESTS=OFF -DCARES_INSTALL=OFF -DCMAKE_C_FLAGS="$CFLAGS_LIB" > $B.cmake.log 2>&1 || { cat $B.cmake.log >&2; exit 2; }
  echo "$REPO" > $B/.repo
fi
ninja -C $B > $B.ninja.log 2>&1 || { tail -40 $B.ninja.log >&2; echo "SIM-INFRA: c-ares build failed" >&2; exit 2; }

LIB=$B/lib/libcares.a
OUT=$B/sim
mkdir -p $OUT
# redirect OS imports inside the c-ares objects only
if [ ! -f $OUT/libcares_sim.a ] || [ $LIB -nt $OUT/libcares_sim.a ] || [ $SIM/symmap.txt -nt $OUT/libcares_sim.a ]; then
  cp $LIB $OUT/libcares_sim.a.tmp
  objcopy --redefine-syms=$SIM/symmap.txt $OUT/libcares_sim.a.tmp
  mv $OUT/libcares_sim.a.tmp $OUT/libcares_sim.a
  # audit: imports that are neither redirected nor known-pure libc
  nm --undefined-only $LIB 2>/dev/null | awk 'NF==2{print $2}' | sort -u | grep -v '^ares_\|^__asan\|^__ubsan\|^__tsan\|^__sanitizer\|^cares_verif' > $OUT/imports.txt || true
  awk '{print $1}' $SIM/symmap.txt | sort -u > $OUT/mapped.txt
  sort -u $SIM/libc_whitelist.txt > $OUT/white.txt
  comm -23 $OUT/imports.txt <(sort -u $OUT/mapped.txt $OUT/white.txt) > $OUT/unvirtualised_imports.txt || true
fi

INC="-I$REPO/include -I$B -I$SIM"
PRIV="-I$REPO/src/lib -I$REPO/src/lib/include -DHAVE_CONFIG_H -DCARES_BUILDING_LIBRARY -DCARES_STATICLIB"
CXX="clang++ -std=c++17 -O1 -g $HSAN -DCARES_STATICLIB -Wall -Wno-unused-function -Wno-deprecated-declarations $INC"
objs=""
for f in util dnsref vk net glue run profiles oracles main modeb; do
  o=$OUT/$f.o
  if [ ! -f $o ] || [ $SIM/$f.cc -nt $o ] || [ -n "$(find $SIM -name '*.h' -newer $o -print -quit)" ] || [ $B/ares_build.h -nt $o ]; then
    $CXX -c $SIM/$f.cc -o $o &
  fi
  objs="$objs $o"
done
# scheduler: never thread-sanitized
o=$OUT/sched.o
if [ ! -f $o ] || [ $SIM/sched.c -nt $o ] || [ $SIM/simsched.h -nt $o ]; then
  clang -O1 -g $( [ $FLAVOR = asan ] && echo "$SAN" ) -c $SIM/sched.c -o $o &
fi
objs="$objs $o"
# white-box reads; fall back to the stub if the tree no longer matches
o=$OUT/peek.o
if [ ! -f $o ] || [ $SIM/peek.c -nt $o ] || [ $LIB -nt $o ]; then
  ( clang -O1 -g $( [ $FLAVOR = asan ] && echo "$SAN" ) $INC $PRIV -c $SIM/peek.c -o $o 2>$OUT/peek.err || { echo "peek.c does not compile; using stub" >&2; clang -O1 -g -c $SIM/peek_stub.c -o $o; } ) &
fi
objs="$objs $o"
wait
for o in $objs; do [ -f $o ] || { echo "SIM-INFRA: harness compile failed ($o)" >&2; exit 2; }; done
newer=0
for o in $objs $OUT/libcares_sim.a; do [ $o -nt $OUT/simbin ] && newer=1; done
if [ ! -f $OUT/simbin ] || [ $newer = 1 ]; then
  clang++ $SAN -g $objs $OUT/libcares_sim.a -lpthread -o $OUT/simbin.tmp || { echo "SIM-INFRA: link failed" >&2; exit 2; }
  [ $FLAVOR = plain ] && strip --strip-debug $OUT/simbin.tmp
  mv $OUT/simbin.tmp $OUT/simbin
fi
echo $OUT/simbin
