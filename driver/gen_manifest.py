#!/usr/bin/env python3
"""Generates /verif/MANIFEST.json from the table below (kept in one place so it stays consistent)."""
import json, os, subprocess, sys

ROOT = os.path.dirname(os.path.dirname(os.path.abspath(__file__)))

TECH = "deterministic simulation with fault injection: seeded search over schedules and fault sequences, "

CLAIMED = {
    'C01': dict(
        text="Seeded exploration of API histories (all ten entry points, re-entrant callbacks that start requests or cancel, top-level cancel, destroy) against virtual servers (answers, error rcodes, truncation, silence, garbage, resets), packet loss/dup/reorder/delay and per-call socket faults. A per-request ledger decides exactly-once, cancel completeness and no-callback-after-destroy at every step; ASan/UBSan and c-ares' own assertions run in the same executions. Sampling, not proof.",
        ref="5 C01", tech=TECH + "request-ledger oracle + ASan/UBSan over each simulated history",
        note="Trusts the virtual kernel's model of Linux socket semantics and the application model staying inside the documented API contract (no calls from EDESTRUCTION callbacks, no destroy from callbacks)."),
}

NOT_YET = {}

NA = {
    'C02': "pure function of a byte string: no schedule, clock, fault or peer in the statement; coverage-guided fuzzing / bounded model checking territory, not simulation (DESIGN.md section 6)",
    'C04': "pure function of a byte string (differential decoding against an RFC reference); no schedule, clock or fault to simulate (DESIGN.md section 6)",
    'C15': "pure function of configuration text; metamorphic fuzzing territory, nothing for a simulator to schedule or fault (DESIGN.md section 6)",
    'C18': "pure function of (message, capacity); differential fuzzing territory (DESIGN.md section 6)",
    'C19': "sequential containers compared with a model over operation sequences; no time, fault or concurrency in the statement (DESIGN.md section 6)",
}


def repo_commits():
    try:
        out = subprocess.run(['git', '-C', '/repo', 'log', '--format=%H %s'], stdout=subprocess.PIPE, text=True).stdout
    except Exception:
        return []
    return [ln.split()[0] for ln in out.splitlines() if 'verif hook' in ln]


def main():
    sys.path.insert(0, os.path.join(ROOT, 'driver'))
    import simdriver
    checks = []
    for pid in sorted(CLAIMED):
        c = CLAIMED[pid]
        level = simdriver.PROPS[pid]['level']
        checks.append(dict(
            property_id=pid,
            quick_cmd="./check %s --tier quick" % pid,
            thorough_cmd="./check %s --tier thorough" % pid,
            evidence_file="evidence/%s.json" % pid,
            replay_cmd_template="./check replay {path}",
            engine="simdriver",
            level_claimed=dict(category=level, text=c['text'], design_ref="DESIGN.md section " + c['ref']),
            level_note=c['note'],
            technique=c['tech']))
    na = [dict(property_id=k, reason=v) for k, v in sorted(NA.items())]
    na += [dict(property_id=k, reason=v) for k, v in sorted(NOT_YET.items())]
    all_ids = ['C%02d' % i for i in range(1, 21)]
    for pid in all_ids:
        if pid not in CLAIMED and pid not in NA and pid not in NOT_YET:
            na.append(dict(property_id=pid, reason="not claimed yet: the simulation profile for this property has not passed the determinism, no-false-alarm and sensitivity gates (work in progress, see DESIGN.md section 10)"))
    na.sort(key=lambda d: d['property_id'])
    m = dict(
        version=1,
        setup_cmd="./build.sh asan && ./build.sh tsan",
        hooks=dict(guard="CARES_VERIF_SIM", enable="cmake -DCMAKE_C_FLAGS='... -DCARES_VERIF_SIM' (done by /verif/build.sh for the asan and tsan trees under /verif/build)",
                   baseline_off_cmd="cmake --build /repo/_build -j16 && ctest --test-dir /repo/_build -j8 --timeout 900",
                   source_commits=repo_commits(), add_only=True),
        engines=[dict(name="simdriver", path="check", serves_properties=sorted(CLAIMED), kind_free_text="deterministic simulator (virtual kernel, network, servers, clock, scheduler) linked against c-ares built from /repo; python driver fans out seeds, gates on determinism, shrinks and replays")],
        checks=checks,
        not_applicable=na,
        notes="All checks honour VERIF_SEED and VERIF_TIER. Exit 0 held / 1 VIOLATION line / 2 infrastructure failure. Known findings: known_findings.json. See DESIGN.md.")
    with open(os.path.join(ROOT, 'MANIFEST.json'), 'w') as f:
        json.dump(m, f, indent=1)
    print('wrote MANIFEST.json with %d checks, %d not claimed' % (len(checks), len(na)))


if __name__ == '__main__':
    main()
