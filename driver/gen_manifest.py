#!/usr/bin/env python3
"""Generates /verif/MANIFEST.json from the table below (kept in one place so it stays consistent)."""
import json, os, subprocess, sys

ROOT = os.path.dirname(os.path.dirname(os.path.abspath(__file__)))

TECH = "deterministic simulation with fault injection: seeded search over schedules and fault sequences, "

NOTE_COMMON = "Trusts the virtual kernel's model of Linux socket/epoll semantics, the independent DNS codec used by the virtual servers, and the application model staying inside the documented API contract (no calls from EDESTRUCTION callbacks, no destroy from callbacks). Sampling, not proof."

CLAIMED = {
    'C01': dict(
        text="Seeded exploration of API histories (all ten entry points, re-entrant callbacks that start requests or cancel, top-level cancel, destroy) against virtual servers (answers, error rcodes, truncation, silence, garbage, resets), packet loss/dup/reorder/delay and per-call socket faults. A per-request ledger decides exactly-once, cancel completeness and no-callback-after-destroy at every step; ASan/UBSan and c-ares' own assertions run in the same executions.",
        ref="5 C01", tech=TECH + "request-ledger oracle + ASan/UBSan over each simulated history", note=NOTE_COMMON),
    'C03': dict(
        text="Scoped to the write-parse round trips that happen inside the simulated pipeline: every UDP datagram / TCP frame the library hands to a socket (at whatever offset of the connection's output buffer the transport schedule leaves it) is decoded by an independent codec and compared field by field with the request made, including multi-record requests built with the public setters (shared suffixes, escaped names, > 16 KiB), under TCP would-block / partial writes and UDP would-block (a datagram stays queued and others queue behind it); a frame must be exactly one message (no bytes after its end); every answer delivered through record or legacy-buffer callbacks is compared with what the virtual server sent.",
        ref="5 C03", tech=TECH + "reference-decoder oracle at the virtual server and at the callbacks", note=NOTE_COMMON + " The free-standing 'any record round-trips through ares_dns_write/ares_dns_parse' clause is a pure function of the record and is only reached as far as simulated requests/answers travel through it."),
    'C05': dict(
        text="Genuine traffic plus an off-path adversary injecting datagrams that differ from the would-be-valid reply in exactly one respect (id, socket, source address, name, type, class, question count, letter case, cookie) at seeded instants of a query's life. Every delivered datum (including later cache hits) carries a unique marker naming its packet; a marker from a packet that was unacceptable at the instant the library read it is a violation, as is a server-success report in a call that only read unacceptable packets.",
        ref="5 C05", tech=TECH + "provenance oracle (unique markers per packet, acceptability judged by the simulator at read time)", note=NOTE_COMMON),
    'C06': dict(
        text="Seeded per-attempt outcome sequences over option extremes (tries up to 100, timeouts 1 ms..INT_MAX, maxtimeout below the 250 ms floor), dead servers, list edits in flight. Transmissions per wire query are counted at the virtual network against servers x tries + 5; every attempt's wait is checked against the sound envelope (floor, configured maximum, 5000*2^round); termination within a step budget once faults stop; UBSan for the arithmetic.",
        ref="5 C06", tech=TECH + "counting at the virtual network + envelope oracle on white-box read of per-attempt deadlines + UBSan", note=NOTE_COMMON + " Per-attempt deadlines are read (never written) through sim/peek.c."),
    'C07': dict(
        text="Mode A part (application-driven loop): after every step the ares_timeout() hint is compared with the earliest deadline in the channel (white-box read) for NULL/zero/random maxtv; the scheduler sleeps exactly the hint, overshoots or stalls, and no expired deadline may survive a process call. Mode B part (event thread): 1..2 caller threads issue requests separated by virtual think times of 0 ms..70 s against the library's own event thread on each back end (epoll, poll, select), with connections fresh, idle-kept-open or busy and servers that answer or stay silent; all threads are real pthreads released one at a time by the seeded baton scheduler with virtual blocking and timed waits. The run may never reach scheduler quiescence (every thread asleep without deadline, nothing in flight) with a request outstanding, and once the callers are done every request must complete within its retry budget of virtual time.",
        ref="5 C07", tech=TECH + "hint-vs-deadline invariant at every loop turn under a virtual clock", note=NOTE_COMMON),
    'C08': dict(
        text="Seeded request/response/time-advance/reconfigure sequences over a small name set. A request completed without any transmission is a cache hit; its markers identify the cached response, and a reference model (key, rcode/TC filter, whole-second freshness against min(max_ttl, own TTLs or SOA minimum), flush on membership change/reinit) decides whether the hit was allowed and which TTLs it may show through record, legacy and addrinfo APIs.",
        ref="5 C08", tech=TECH + "reference cache model over recorded history, virtual clock stepping across expiry seconds", note=NOTE_COMMON + " A pure reorder of the server list is treated as ambiguous (not required to flush)."),
    'C09': dict(
        text="Per-attempt server behaviour (answer, silence, SERVFAIL/NOTIMP/REFUSED, FORMERR with/without OPT, reset) is a keyed hash of (seed, server, question, attempt), with outages, recoveries and server-list edits as generated steps. A reference failover model is driven by the public server-state callback stream, the list-edit history and, independently of the library's own reports, by hard receive errors the virtual kernel returned on a server's socket (they count against that server from that instant); every first transmission of a query must go to a server the model allows (lowest failure count, list order as tie-break, or a due probe of a failed server under the configured retry chance/delay; rotate cycles), every resend after a failure must move on while another server is available, and a response that is not one of the defined failures must reset the server's count.",
        ref="5 C09", tech=TECH + "reference failover model over the recorded transmission and server-state history", note=NOTE_COMMON + " Failure counts are observed only through ares_set_server_state_callback and the wire; TCP transmissions are not judged."),
    'C11': dict(
        text="2..4 caller threads with seeded programs (all ten request entry points, re-entrant callbacks, ares_cancel, server-list edits, ares_reinit, sortlist/local setters, ares_queue_wait_empty with and without timeout, ares_queue_active_queries, ares_timeout, ares_dup, ares_save_options, ares_get_servers_csv, rewritten system files and injected inotify events) run against the live event thread (epoll/poll/select) and its reload thread. Every thread is a real pthread; a seeded baton scheduler (continue-with-preemption-probability, PCT-style priorities, or uniform) releases exactly one at a time at every mutex, condition, create/join, wait-call and pipe/socket operation; blocking and timeouts are virtual. The same schedules run twice: under ThreadSanitizer (c-ares instrumented, scheduler hand-off invisible to it, so it sees exactly the happens-before relation c-ares' own locks create) and under ASan/UBSan. Verdict: no race report with a c-ares frame; no quiescence with a thread waiting for a mutex (deadlock) or with an incomplete request / a waiter on an empty queue (lost wake-up); every library-created thread joined by ares_destroy; per-request ledger (exactly one callback, none after destroy) and completion within the retry budget; a successful queue wait needs an instant inside the call at which no request was outstanding.",
        ref="5 C11", tech=TECH + "real threads under a seeded baton scheduler with ThreadSanitizer on the deterministic interleaving + deadlock/lost-wake-up detection by quiescence", note=NOTE_COMMON + " Only c-ares is TSan-instrumented; accesses inside libc interceptors and operator new/delete events of the (uninstrumented, serialised) harness are ignored, which also ignores memcpy/memset ranges issued by c-ares itself."),
    'C12': dict(
        text="Generated resolv.conf-style configuration (search lists up to the limit, ndots 0..15, duplicate and root domains, ARES_FLAG_NOSEARCH/NOALIASES, HOSTALIASES in a virtual file) and names with 0..n dots, trailing dots and lengths up to the 255-octet limit; per-candidate zone outcomes (NXDOMAIN, NODATA, SERVFAIL, timeout, answer) are a keyed hash; in a third of the runs the virtual resolv.conf is rewritten and reloaded (ares_reinit) between searches, and each search is judged against the settings in force when it was submitted (option > environment > file). A reference walk produces the allowed candidate sequences (set-valued where the statement is silent); the sequence of distinct question names seen at the virtual servers and the final status/answer provenance must be one of them.",
        ref="5 C12", tech=TECH + "reference search walk compared with the question sequence recorded at the virtual network", note=NOTE_COMMON),
    'C13': dict(
        text="ares_getaddrinfo/ares_gethostbyname under AF_INET/AF_INET6/AF_UNSPEC with per-family outcomes (answer, CNAME chains, NODATA, NXDOMAIN, SERVFAIL, silence, truncation), hosts-file entries in a virtual file, lookups order 'bf'/'fb', and loss/duplication/reordering between the A and AAAA sub-queries. Every address carries a marker naming the packet or hosts line it came from; the delivered multiset of addresses, their families, TTL bounds, the canonical name/alias chain and the status must equal what the reference combination of the two sub-answers allows; a lookup that fails although an answer carrying addresses of a requested family was accepted for one of its candidates has dropped that answer (per-question permanent SERVFAIL/REFUSED per family, single-label and multi-label names).",
        ref="5 C13", tech=TECH + "address-multiset oracle against a reference combination of per-family sub-answers", note=NOTE_COMMON + " An IPv4 literal looked up with AF_INET6 is not judged (legacy behaviour outside the statement)."),
    'C14': dict(
        text="Fault enumeration over a seeded family of short scenarios (channel init with options and virtual system files; every request kind driven to completion against a healthy virtual network, UDP and TCP-upgraded; cache hits; search lists; hosts-file lookups; server-list edits, reinit, cancel, dup, save-options; destroy). Each scenario is executed once failure-free to count its N allocator calls, then once per n in 1..N with exactly the n-th allocation returning NULL (quick tier: at most 500 evenly spread n per scenario). Verdict per execution: no sanitizer report; allocator ledger empty and no foreign free after ares_destroy + ares_library_cleanup; every accepted request got exactly one callback; a request that still reports success has the same answer shape as in the failure-free execution; and after the failure a fresh query on the same channel against the healthy network completes. A second part repeats the enumeration with the library's event thread (Mode B: event thread on epoll/poll/select plus 1..2 caller threads under the baton scheduler, one process per failing index), where allocations made by the library's own threads are failed too and a hang of ares_destroy, a busy loop or a deaf event thread count as violations.",
        ref="5 C14", tech=TECH + "exhaustive-per-scenario enumeration of the failing allocation index with ledger, differential and usability oracles + ASan/UBSan", note=NOTE_COMMON + " The allocator seam is the public ares_library_init_mem(); realloc failures keep the original block. AF_UNSPEC address lookups are excluded from the answer-shape comparison (either half may legitimately be missing). One known finding (KF-C14-1: a socket-state change lost for lack of memory in the event thread)."),
    'C16': dict(
        text="Scoped as in DESIGN.md: seeded option masks and values (every option independently set or left to the system), server sets (IPv4/IPv6/link-local, default/equal/differing UDP and TCP ports) through five encodings (CSV incl. dns:// URIs and %iface, legacy IPv4 option, system files, address nodes, address+port nodes), sortlists and domains, against virtual resolv.conf/nsswitch/environment contents that disagree with every user-set field. Plans interleave traffic with ares_dup, ares_save_options -> ares_init_options, ares_get_servers_csv -> ares_set_servers_ports_csv on a fresh channel, rewrites of the virtual system files followed by ares_reinit, and explicit setters. After init and after every step each user-set field and the user-set server list must still be in force; copies are compared with the original field by field (effective settings, server list with ports and interface, saved options and mask); the CSV text must be a fixed point of get -> set -> get. A second part (Mode B) runs the same option space on a channel with the library's event thread: two caller threads under the seeded baton scheduler issue ares_reinit, rewrite resolv.conf and inject change notifications (the event thread then starts the reload thread), while one of them calls ares_set_servers_ports_csv / ares_set_sortlist at every position relative to the reloads (configuration-file reads are scheduling points); once no reload is in progress, every setting the application made at init or through a setter must be the one in force.",
        ref="5 C16", tech=TECH + "reference comparison of original vs copy and of effective vs user-supplied settings after every step; seeded thread interleavings of setters against reload threads (baton scheduler)", note=NOTE_COMMON + " Effective values of options that ares_save_options cannot report are read (never written) through sim/peek.c. The options structure carries IPv4 servers without ports only (documented): save->init server comparison is limited to that. Servers are compared as sets once the original has recorded a server failure (public getters list them in priority order). One known finding (KF-C16-1, stale system-derived settings after reinit)."),
    'C17': dict(
        text="Virtual servers implement RFC 7873 server behaviour in ten modes (no cookie support, echo, strict BADCOOKIE, rotating secrets, regression to no-cookie and back, malformed lengths, wrong client cookie echoes). A per-(channel, server) reference model of the client state machine is fed every transmission and every reply the library read: client cookie stable while source address and server are unchanged and regenerated when they change, server cookie echoed exactly as last validly learned, replies with a missing/mismatched client cookie dropped once support was seen, at most the allowed consecutive BADCOOKIE resends before TCP, and fall back to cookie-less operation within the regression period on a virtual clock.",
        ref="5 C17", tech=TECH + "RFC 7873 reference state machine over recorded transmissions/reads under a virtual clock", note=NOTE_COMMON),
    'C10': dict(
        text="The virtual socket layer never reuses descriptor numbers and logs every call: any call or close on a closed/never-opened descriptor, a leaked or doubly closed socket, a UDP socket over its per-socket query limit, a socket-state notification outside the descriptor's lifetime, a missing/duplicate final (0,0), an open socket the application was not told to watch (read; write while a connect or partial write is pending), and any disagreement between ares_fds/ares_getsock and the open set (ares_getsock is given arrays of 1..47 entries, with more than 16 sockets open in a share of runs; nothing beyond what its 16-socket bitmask can describe may be written) is a violation, under per-call socket faults, TFO, failing socket callbacks, cancels and reconfiguration.",
        ref="5 C10", tech=TECH + "call-protocol automaton over the virtual kernel's call log and callback streams", note=NOTE_COMMON),
    'C20': dict(
        text="Differential: each seeded plan (batches of queued queries, answers up to several KiB, TC upgrades) runs twice, once over whole-message always-writable transport and once with generated inbound chunking (down to 1 byte), partial writes, EAGAIN windows and zero-length datagrams; per-request outcomes and the set of questions reaching the servers must agree, every frame at the server must decode. A valgrind-memcheck part runs the same profile on an uninstrumented build to catch uninitialised reads on these paths.",
        ref="5 C20", tech=TECH + "differential execution of the same plan with and without transport segmentation + valgrind part", note=NOTE_COMMON + " How often/where a question is retransmitted is timing dependent and not compared."),
}

NOT_YET = {}

NA = {
    'C02': "pure function of a byte string: no schedule, clock, fault or peer in the statement; coverage-guided fuzzing / bounded model checking territory, not simulation (DESIGN.md section 6)",
    'C04': "pure function of a byte string (differential decoding against an RFC reference); no schedule, clock or fault to simulate (DESIGN.md section 6)",
    'C15': "pure function of configuration text; metamorphic fuzzing territory, nothing for a simulator to schedule or fault (DESIGN.md section 6)",
    'C18': "pure function of (message, capacity); differential fuzzing territory (DESIGN.md section 6)",
    'C19': "sequential containers compared with a model over operation sequences; no time, fault or concurrency in the statement (DESIGN.md section 6)",
}


def repo_commits():
    try:
        out = subprocess.run(['git', '-C', '/repo', 'log', '--format=%H %s'], stdout=subprocess.PIPE, text=True).stdout
    except Exception:
        return []
    return [ln.split()[0] for ln in out.splitlines() if 'verif hook' in ln]


def main():
    sys.path.insert(0, os.path.join(ROOT, 'driver'))
    import simdriver
    checks = []
    for pid in sorted(CLAIMED):
        c = CLAIMED[pid]
        level = simdriver.PROPS[pid]['level']
        checks.append(dict(
            property_id=pid,
            quick_cmd="./check %s --tier quick" % pid,
            thorough_cmd="./check %s --tier thorough" % pid,
            evidence_file="evidence/%s.json" % pid,
            replay_cmd_template="./check replay {path}",
            engine="simdriver",
            level_claimed=dict(category=level, text=c['text'], design_ref="DESIGN.md section " + c['ref']),
            level_note=c['note'],
            technique=c['tech']))
    na = [dict(property_id=k, reason=v) for k, v in sorted(NA.items())]
    na += [dict(property_id=k, reason=v) for k, v in sorted(NOT_YET.items())]
    all_ids = ['C%02d' % i for i in range(1, 21)]
    for pid in all_ids:
        if pid not in CLAIMED and pid not in NA and pid not in NOT_YET:
            na.append(dict(property_id=pid, reason="not claimed yet: the simulation profile for this property has not passed the determinism, no-false-alarm and sensitivity gates (work in progress, see DESIGN.md section 10)"))
    na.sort(key=lambda d: d['property_id'])
    m = dict(
        version=1,
        setup_cmd="./build.sh asan && ./build.sh plain && ./build.sh tsan",
        hooks=dict(guard="CARES_VERIF_SIM", enable="cmake -DCMAKE_C_FLAGS='... -DCARES_VERIF_SIM' (done by /verif/build.sh for the asan and tsan trees under /verif/build)",
                   baseline_off_cmd="cmake --build /repo/_build -j16 && ctest --test-dir /repo/_build -j8 --timeout 900",
                   source_commits=repo_commits(), add_only=True),
        engines=[dict(name="simdriver", path="check", serves_properties=sorted(CLAIMED), kind_free_text="deterministic simulator (virtual kernel, network, servers, clock, scheduler) linked against c-ares built from /repo; python driver fans out seeds, gates on determinism, shrinks and replays")],
        checks=checks,
        not_applicable=na,
        notes="All checks honour VERIF_SEED and VERIF_TIER. Exit 0 held / 1 VIOLATION line / 2 infrastructure failure. Known findings: known_findings.json. See DESIGN.md.")
    with open(os.path.join(ROOT, 'MANIFEST.json'), 'w') as f:
        json.dump(m, f, indent=1)
    print('wrote MANIFEST.json with %d checks, %d not claimed' % (len(checks), len(na)))


if __name__ == '__main__':
    main()
