"""Orchestration: build, fan out seeds to worker processes, classify outcomes, gate on determinism,
shrink, match known findings, write evidence."""
import sys, os, json, subprocess, time, re, threading, queue, shutil, hashlib

DEFAULT_SEED = 20250927
WORKERS = int(os.environ.get('VERIF_WORKERS', '14'))

# property table: profile(s) to run, build flavours, run counts and wall caps per tier
PROPS = {
    'C01': dict(parts=[dict(profile='C01', flavor='asan', quick=12000, thorough=600000)], level='exploration'),
    'C03': dict(parts=[dict(profile='C03', flavor='asan', quick=4000, thorough=300000)], level='exploration'),
    'C05': dict(parts=[dict(profile='C05', flavor='asan', quick=12000, thorough=500000)], level='exploration'),
    'C06': dict(parts=[dict(profile='C06', flavor='asan', quick=12000, thorough=500000)], level='exploration'),
    'C07': dict(parts=[dict(profile='C07', flavor='asan', quick=10000, thorough=400000),
                       dict(profile='C07B', flavor='asan', quick=6000, thorough=300000, modeb=True)], level='exploration'),
    'C08': dict(parts=[dict(profile='C08', flavor='asan', quick=12000, thorough=500000)], level='exploration'),
    'C09': dict(parts=[dict(profile='C09', flavor='asan', quick=15000, thorough=500000)], level='exploration'),
    'C10': dict(parts=[dict(profile='C10', flavor='asan', quick=12000, thorough=500000)], level='exploration'),
    'C11': dict(parts=[dict(profile='C11', flavor='tsan', quick=4000, thorough=200000, modeb=True),
                       dict(profile='C11', flavor='asan', quick=4000, thorough=200000, modeb=True)], level='exploration'),
    'C12': dict(parts=[dict(profile='C12', flavor='asan', quick=15000, thorough=500000)], level='exploration'),
    'C13': dict(parts=[dict(profile='C13', flavor='asan', quick=15000, thorough=500000)], level='exploration'),
    'C14': dict(parts=[dict(profile='C14', flavor='asan', quick=500, thorough=3000, enumerate=True, quick_args=['--max-subs', '500'], thorough_args=[]),
                       dict(profile='C14B', flavor='asan', quick=24, thorough=400, enumerate=True, modeb=True, quick_subs=150, thorough_subs=0)], level='fault_enumeration'),
    'C16': dict(parts=[dict(profile='C16', flavor='asan', quick=20000, thorough=300000),
                       dict(profile='C16B', flavor='asan', quick=5000, thorough=250000, modeb=True)], level='exploration'),
    'C17': dict(parts=[dict(profile='C17', flavor='asan', quick=12000, thorough=500000)], level='exploration'),
    'C20': dict(parts=[dict(profile='C20', flavor='asan', quick=3000, thorough=250000),
                       dict(profile='C20', flavor='valgrind', quick=120, thorough=4000)], level='exploration'),
    'SMOKE': dict(parts=[dict(profile='SMOKE', flavor='asan', quick=500, thorough=5000)], level='exploration'),
}
QUICK_WALL = float(os.environ.get('VERIF_QUICK_WALL', '120'))
THOROUGH_WALL = float(os.environ.get('VERIF_THOROUGH_WALL', '900'))

COMPONENTS = [
    "real: every c-ares source file cmake builds on Linux, compiled from /repo's working tree with -DCARES_VERIF_SIM (hook H1 only), incl. default socket functions, event thread, epoll/poll/select back ends, wake pipe, inotify watcher, reload thread",
    "simulated: clock (clock_gettime/gettimeofday/time), randomness (arc4random_buf, hash seed via H1), kernel objects (sockets, pipes, epoll, inotify, descriptors), network and DNS servers (independent codec), files and environment, thread scheduling (Mode B baton scheduler)",
    "real libc: memory/str functions, qsort, getservby*_r; allocator = real malloc behind ares_library_init_mem with a ledger",
    "white-box reads only in peek.c (timeout index); falls back to black-box forms if it stops compiling",
]


class Infra(Exception):
    pass


def sh(cmd, **kw):
    return subprocess.run(cmd, stdout=subprocess.PIPE, stderr=subprocess.PIPE, text=True, **kw)


def build(root, flavor):
    if flavor == 'valgrind':
        flavor = 'plain'
    p = sh([os.path.join(root, 'build.sh'), flavor])
    if p.returncode != 0:
        sys.stderr.write(p.stdout + p.stderr)
        raise Infra('build failed for ' + flavor)
    binp = p.stdout.strip().splitlines()[-1]
    if not os.path.exists(binp):
        raise Infra('no binary after build: ' + binp)
    return binp


FRAME_RE = re.compile(r'^\s+#\d+ 0x[0-9a-f]+ in (\S+) (\S+)')
TSAN_FRAME_RE = re.compile(r'^\s+#\d+ (\S+) (\S+?):\d+')


def sanitizer_signature(stderr):
    """Classify a sanitizer / assertion death by kind and the c-ares frames involved."""
    lines = stderr.splitlines()
    kind = None
    for ln in lines:
        m = re.search(r'ERROR: AddressSanitizer: (\S+)', ln)
        if m:
            kind = 'asan:' + m.group(1)
            break
        m = re.search(r'runtime error: (.*)$', ln)
        if m:
            msg = re.sub(r'-?\d+', 'N', m.group(1))
            loc = re.search(r'(\S*/(?:src/lib|include)/\S+?):\d+', ln)
            kind = 'ubsan:' + msg[:80] + ('@' + os.path.basename(loc.group(1)) if loc else '')
            break
        m = re.search(r'WARNING: ThreadSanitizer: (.*?) \(pid', ln)
        if m:
            kind = 'tsan:' + m.group(1)
            break
        m = re.search(r'Assertion `(.*?)\' failed', ln)
        if m:
            kind = 'assert:' + m.group(1)[:80]
            break
        if 'SIM-WATCHDOG' in ln:
            kind = 'watchdog'
            break
        m = re.match(r'==\d+== (Conditional jump or move depends on uninitialised value|Use of uninitialised value|Syscall param .* uninitialised|Invalid read|Invalid write|Invalid free|Mismatched free)', ln)
        if m:
            kind = 'valgrind:' + m.group(1).replace(' ', '_')
            fr = []
            for l2 in lines[lines.index(ln) + 1:]:
                m2 = re.match(r'==\d+==\s+(?:at|by) 0x[0-9A-F]+: (\S+)', l2)
                if not m2:
                    break
                fn = m2.group(1)
                if fn.startswith('ares_') or fn in ('read_answers', 'process_answer', 'end_query'):
                    if fn not in fr:
                        fr.append(fn)
            return kind + ':' + ','.join(fr[:3])
    if kind is None:
        return None
    frames = []
    section = 0
    secframes = {0: [], 1: []}
    allframes = {}
    for ln in lines:
        if ln.startswith('freed by thread') or ln.startswith('previously allocated by') or 'Previous ' in ln:
            section = 1
        if kind.startswith('tsan:') and (ln.startswith('  Location is') or ln.startswith('  Mutex ') or ln.startswith('  Thread T')):
            section = 2   # allocation / mutex / thread creation stacks do not identify the race
            secframes.setdefault(2, [])
        m = FRAME_RE.match(ln) or (TSAN_FRAME_RE.match(ln) if kind.startswith('tsan:') else None)
        if m and ('/src/lib/' in m.group(2) or '/include/ares' in m.group(2)):
            fn = m.group(1)
            allframes.setdefault(section, []).append(fn)
            if len(secframes[section]) < 4 and fn not in secframes[section]:
                secframes[section].append(fn)
    if kind.startswith('tsan:'):
        # one unlocked access races with many partners: class = the two public entry points involved (outermost c-ares frames)
        outer = sorted(set(x[-1] for x in (allframes.get(0, []), allframes.get(1, [])) if x))
        return kind + ':' + '|'.join(outer)
    sig = kind + ':' + ','.join(secframes[0][:3])
    if secframes[1]:
        sig += '|freed:' + ','.join(secframes[1][:2])
    return sig


VALGRIND = ['valgrind', '-q', '--error-exitcode=99', '--exit-on-first-error=yes']


class Worker:
    """Runs chunks of seeds; restarts the binary after a death."""

    def __init__(self, binp, profile, prefix=None, extra=None):
        self.binp, self.profile, self.prefix, self.extra = binp, profile, prefix or [], extra or []

    def run_range(self, start, count, out, deadline):
        s, end = start, start + count
        sub_from = 0
        while s < end:
            if time.time() > deadline:
                out['skipped'] += end - s
                return
            p = subprocess.Popen(self.prefix + [self.binp, '--profile', self.profile, '--seed', str(s), '--count', str(end - s)] + self.extra +
                                 (['--sub-from', str(sub_from)] if sub_from else []),
                                 stdout=subprocess.PIPE, stderr=subprocess.PIPE, text=True)
            sub_from = 0
            so, se = p.communicate()
            done = 0
            for ln in so.splitlines():
                if ln.startswith('RUN '):
                    try:
                        r = json.loads(ln[4:])
                    except Exception:
                        continue
                    out['runs'].append(r)
                    done += 1
                elif ln.startswith('SUMMARY '):
                    out['summaries'].append(json.loads(ln[8:]))
            if p.returncode == 0:
                return
            m = re.search(r'SIM-DIED profile=\S+ seed=(\d+)(?: sub=(-?\d+))?', se) or re.search(r'SIM-WATCHDOG profile=\S+ seed=(\d+)(?: sub=(-?\d+))?', se)
            died = int(m.group(1)) if m else s + done
            sub = int(m.group(2)) if m and m.group(2) is not None else -1
            sig = sanitizer_signature(se)
            if p.returncode == 2 and sig is None:
                out['infra'].append('worker exit 2 at seed %d: %s' % (died, se[-400:]))
                return
            out['deaths'].append(dict(seed=died, sub=sub, sig=sig or ('exit%d' % p.returncode), rc=p.returncode, stderr=se[-6000:]))
            # partial stats of a dead worker are lost except its RUN lines; continue after the dead seed
            # (enumeration profiles: after the dead failing index of the same scenario)
            if sub > 0:
                s = died
                sub_from = sub + 1
            else:
                s = died + 1


def run_parallel(binp, profile, start, count, wall, chunk=None, modeb=False, prefix=None, extra=None, enum_subs=None):
    out = dict(runs=[], summaries=[], deaths=[], infra=[], skipped=0)
    lock = threading.Lock()
    q = queue.Queue()
    if chunk is None:
        chunk = max(20, min(400, count // (WORKERS * 4) or 1))
    if modeb:
        chunk = 1
    s = start
    while s < start + count:
        q.put((s, min(chunk, start + count - s)))
        s += chunk
    deadline = time.time() + wall

    def work():
        w = Worker(binp, profile, prefix, extra)
        while True:
            try:
                a, n = q.get_nowait()
            except queue.Empty:
                return
            local = dict(runs=[], summaries=[], deaths=[], infra=[], skipped=0)
            if modeb and enum_subs is not None:
                run_modeb_enum(binp, profile, a, local, deadline, enum_subs)
            elif modeb:
                run_modeb_one(binp, profile, a, local, deadline)
            else:
                w.run_range(a, n, local, deadline)
            with lock:
                for k in ('runs', 'summaries', 'deaths', 'infra'):
                    out[k].extend(local[k])
                out['skipped'] += local['skipped']

    ts = [threading.Thread(target=work) for _ in range(WORKERS)]
    for t in ts:
        t.start()
    for t in ts:
        t.join()
    return out


def run_modeb_enum(binp, profile, seed, out, deadline, max_subs):
    """Enumeration over failing allocation indices for a Mode-B scenario: one process per execution."""
    ref = dict(runs=[], summaries=[], deaths=[], infra=[], skipped=0)
    run_modeb_one(binp, profile, seed, ref, deadline)
    for k in ('runs', 'summaries', 'deaths', 'infra'):
        out[k].extend(ref[k])
    out['skipped'] += ref['skipped']
    if not ref['runs']:
        return
    n_alloc = int((ref['runs'][0].get('probe') or {}).get('alloc_calls', 0))
    if n_alloc <= 0:
        return
    if max_subs and n_alloc > max_subs:
        step = n_alloc / float(max_subs)
        off = (seed % 97) / 97.0 * step
        subs = sorted(set(min(n_alloc, 1 + int(off + k * step)) for k in range(max_subs)))
    else:
        subs = list(range(1, n_alloc + 1))
    for n in subs:
        if time.time() > deadline:
            out['skipped'] += 1
            continue
        before = len(out['deaths'])
        run_modeb_one(binp, profile, seed, out, deadline, extra=['--fail-at', str(n)])
        for d in out['deaths'][before:]:
            d['sub'] = n
    out['summaries'].append(dict(stat={'enum.scenarios': 1, 'enum.alloc_calls_in_reference': n_alloc, 'enum.failing_indices_run': len(subs), 'enum.scenarios_exhaustive': 1 if len(subs) == n_alloc else 0}))


def run_modeb_one(binp, profile, seed, out, deadline, extra=None):
    if time.time() > deadline:
        out['skipped'] += 1
        return
    try:
        p = subprocess.run([binp, '--profile', profile, '--seed', str(seed), '--count', '1'] + (extra or []), stdout=subprocess.PIPE, stderr=subprocess.PIPE, text=True, timeout=120)
    except subprocess.TimeoutExpired:
        out['deaths'].append(dict(seed=seed, sig='watchdog', rc=-1, stderr='timeout'))
        return
    got = False
    for ln in p.stdout.splitlines():
        if ln.startswith('RUN '):
            try:
                out['runs'].append(json.loads(ln[4:]))
                got = True
            except Exception:
                pass
        elif ln.startswith('SUMMARY '):
            out['summaries'].append(json.loads(ln[8:]))
    if p.returncode in (0, 3) and got:
        return
    sig = sanitizer_signature(p.stderr)
    if sig is None and p.returncode == 2:
        out['infra'].append('mode-B worker exit 2 at seed %d: %s' % (seed, p.stderr[-400:]))
        return
    out['deaths'].append(dict(seed=seed, sig=sig or ('exit%d' % p.returncode), rc=p.returncode, stderr=p.stderr[-6000:]))


# ---------- single-run helpers (replay, plans) ----------
def get_plan(binp, profile, seed):
    p = sh([binp, '--profile', profile, '--seed', str(seed), '--plan-only'])
    for ln in p.stdout.splitlines():
        if ln.startswith('PLAN '):
            return json.loads(ln[5:])
    raise Infra('cannot obtain plan for %s seed %d: %s' % (profile, seed, p.stderr[-300:]))


def run_replay(binp, path, timeout=180):
    """Returns (classes:set, runrec|None, trace|None, stderr)."""
    pre = VALGRIND if os.sep + 'plain' in binp else []
    try:
        p = subprocess.run(pre + [binp, '--replay', path], stdout=subprocess.PIPE, stderr=subprocess.PIPE, text=True, timeout=timeout)
    except subprocess.TimeoutExpired:
        return set(['watchdog']), None, None, 'timeout'
    rec = None
    for ln in p.stdout.splitlines():
        if ln.startswith('RUN '):
            try:
                rec = json.loads(ln[4:])
            except Exception:
                pass
    classes = set()
    if rec:
        for v in rec.get('viol', []):
            classes.add(v['prop'] + ':' + v['oracle'])
    if p.returncode not in (0, 3) or rec is None:
        sig = sanitizer_signature(p.stderr)
        if sig:
            classes.add('san:' + sig)
        elif p.returncode == 2:
            classes.add('infra')
        elif rec is None:
            classes.add('exit%d' % p.returncode)
    return classes, rec, (rec or {}).get('trace'), p.stderr


def class_matches(target, classes):
    """Same violation class: identical oracle class, or for sanitizer deaths the same kind and leading frame."""
    if target in classes:
        return True
    if target.startswith('san:tsan:'):
        # which of several racing pairs on one schedule TSan reports first depends on its shadow-cell eviction, i.e. on heap
        # addresses, which differ between a seed run and a replay-file run: any TSan report of the same kind reproduces it
        tk = target.split(':')[1:3]
        return any(c.startswith('san:tsan:') and c.split(':')[1:3] == tk for c in classes)
    if target.startswith('san:'):
        tk = target.split(':')[1:3]
        tf = target.split(':', 3)[3].split(',')[0].split('|')[0] if target.count(':') >= 3 else ''
        for c in classes:
            if c.startswith('san:'):
                ck = c.split(':')[1:3]
                cf = c.split(':', 3)[3].split(',')[0].split('|')[0] if c.count(':') >= 3 else ''
                if ck == tk and cf == tf:
                    return True
    return False


def shrink(binp, plan, target, workdir, budget_s=60, max_tests=400):
    """ddmin over plan steps, candidates evaluated in parallel fresh processes."""
    steps = plan['steps']
    t_end = time.time() + budget_s
    tests = [0]

    def test_many(cands):
        res = [False] * len(cands)

        def one(i):
            path = os.path.join(workdir, 'cand_%d_%d.json' % (os.getpid(), i))
            d = dict(plan)
            d['steps'] = cands[i]
            with open(path, 'w') as f:
                json.dump(d, f)
            classes, _, _, _ = run_replay(binp, path, timeout=60)
            res[i] = class_matches(target, classes)
            try:
                os.unlink(path)
            except OSError:
                pass

        ths = []
        for i in range(len(cands)):
            t = threading.Thread(target=one, args=(i,))
            t.start()
            ths.append(t)
            if len(ths) >= WORKERS:
                for t in ths:
                    t.join()
                ths = []
        for t in ths:
            t.join()
        tests[0] += len(cands)
        return res

    n = 2
    while len(steps) >= 2 and time.time() < t_end and tests[0] < max_tests:
        size = max(1, len(steps) // n)
        chunks = [steps[i:i + size] for i in range(0, len(steps), size)]
        # complements
        cands = [sum(chunks[:i] + chunks[i + 1:], []) for i in range(len(chunks))]
        res = test_many(cands)
        hit = [i for i, r in enumerate(res) if r]
        if hit:
            steps = cands[hit[0]]
            n = max(n - 1, 2)
        else:
            if size == 1:
                break
            n = min(len(steps), n * 2)
    out = dict(plan)
    out['steps'] = steps
    return out, tests[0]


# ---------- known findings ----------
def load_known(root):
    p = os.path.join(root, 'known_findings.json')
    if not os.path.exists(p):
        return dict(findings=[], fixed=[])
    with open(p) as f:
        return json.load(f)


def match_known(known, prop, cls, detail):
    for k in known.get('findings', []):
        if re.search(k['class_regex'], cls) and (not k.get('detail_regex') or re.search(k['detail_regex'], detail or '')):
            return k
    return None


# ---------- the check ----------
def write_evidence(root, prop, tier, seed, level, cov, wall, nviol, assumptions):
    evdir = os.environ.get('VERIF_EVIDENCE_DIR', os.path.join(root, 'evidence'))
    os.makedirs(evdir, exist_ok=True)
    ev = dict(property_id=prop, tier=tier, seed=seed, level=level, coverage=cov, assumptions=assumptions, wall_s=round(wall, 2), violations=nviol)
    with open(os.path.join(evdir, prop + '.json'), 'w') as f:
        json.dump(ev, f, indent=1, sort_keys=True)


def do_check(root, prop, tier, seed):
    t0 = time.time()
    spec = PROPS[prop]
    known = load_known(root)
    workdir = os.path.join(root, 'build', 'work')
    os.makedirs(workdir, exist_ok=True)
    replays_dir = os.environ.get('VERIF_REPLAYS_DIR', os.path.join(root, 'replays'))
    os.makedirs(replays_dir, exist_ok=True)
    wall_total = QUICK_WALL if tier == 'quick' else THOROUGH_WALL
    bins = {}
    for part in spec['parts']:
        if part['flavor'] not in bins:
            bins[part['flavor']] = build(root, part['flavor'])
    unvirt = []
    for fl in bins:
        p = os.path.join(root, 'build', fl + os.environ.get('VERIF_BUILD_TAG', ''), 'sim', 'unvirtualised_imports.txt')
        if os.path.exists(p):
            unvirt += [x.strip() for x in open(p) if x.strip()]

    agg_runs = 0
    agg_nt = 0
    shapes = set()
    stat = {}
    samples = []
    virt_s = 0.0
    reqs = txs = steps = 0
    own = {}       # class -> list of (seed, detail, part)
    cross = {}     # other-property classes -> count
    infra = []
    skipped = 0
    rule = ''
    peek = 1
    part_rows = []
    start = seed * 1000000 + 1

    # 1. replay committed findings of this property: each listed finding must still reproduce to be reported as known
    known_lines = []
    for k in known.get('findings', []):
        if k['property'] != prop:
            continue
        rp = os.path.join(root, k['replay']) if k.get('replay') else None
        fl = k.get('flavor', 'asan')
        if fl not in bins:
            bins[fl] = build(root, fl)
        if rp and os.path.exists(rp):
            classes, _, _, _ = run_replay(bins[fl], rp)
            if 'infra' in classes:
                raise Infra('replay of known finding %s failed to run' % k['id'])
            if any(re.search(k['class_regex'], c) for c in classes):
                known_lines.append('KNOWN-FINDING: property=%s %s' % (prop, k['what']))
                k['_seen'] = True
            else:
                print('NOTE: listed finding %s no longer reproduces from %s (classes now: %s)' % (k['id'], k['replay'], sorted(classes)))

    # 2. exploration
    nparts = len(spec['parts'])
    for pi, part in enumerate(spec['parts']):
        binp = bins[part['flavor']]
        count = part[tier]
        wall = wall_total / nparts
        if part.get('enumerate') and part.get('modeb'):
            res = run_parallel(binp, part['profile'], start + pi * 500000, count, wall, modeb=True, enum_subs=part.get(tier + '_subs', 0))
        elif part.get('enumerate'):
            res = run_parallel(binp, part['profile'], start, count, wall, chunk=1, extra=part.get(tier + '_args'))
        elif part['flavor'] == 'valgrind':
            res = run_parallel(binp, part['profile'], start + pi * 500000, count, wall, chunk=max(2, count // (WORKERS * 2)), prefix=VALGRIND)
        else:
            res = run_parallel(binp, part['profile'], start + pi * 500000, count, wall, modeb=part.get('modeb', False))
        infra += res['infra']
        skipped += res['skipped']
        pr = len(res['runs'])
        agg_runs += pr
        for s in res['summaries']:
            for sh_ in s.get('shapes', []):
                shapes.add(part['profile'] + part['flavor'] + sh_)
            for k2, v in s.get('stat', {}).items():
                stat[k2] = stat.get(k2, 0) + v
            if len(samples) < 4:
                samples += s.get('samples', [])[:1]
            virt_s += s.get('virt_s', 0)
            reqs += s.get('reqs', 0)
            txs += s.get('txs', 0)
            steps += s.get('steps', 0)
            rule = s.get('rule', rule)
            peek = min(peek, s.get('peek', 1))
            agg_nt += s.get('nontrivial', 0)
        # runs of dead workers have RUN lines but no summary: count their shapes too
        for r in res['runs']:
            if r.get('nt'):
                shapes.add(part['profile'] + part['flavor'] + r['shape'])
            for v in r.get('viol', []):
                cls = v['prop'] + ':' + v['oracle']
                if v['prop'] == prop:
                    own.setdefault(cls, []).append((r['seed'], v['detail'], pi, r.get('sub', 0)))
                else:
                    cross[cls] = cross.get(cls, 0) + 1
        for d in res['deaths']:
            cls = 'san:' + d['sig']
            own.setdefault(cls, []).append((d['seed'], d['stderr'][-1500:], pi, max(0, d.get('sub', 0))))
        part_rows.append(dict(profile=part['profile'], flavor=part['flavor'], runs=pr, deaths=len(res['deaths']), skipped=res['skipped']))

    if infra:
        for m in infra[:5]:
            sys.stderr.write('INFRA: ' + m + '\n')
        raise Infra('worker infrastructure failure')

    # 3. triage each violation class: determinism gate, shrink, known-finding match
    new_viol = []
    for cls in sorted(own):
        occ = sorted(own[cls])
        # every occurrence is matched on its own: a listed finding only absorbs the occurrences whose facts it names
        # (sanitizer deaths of this check may belong to a finding recorded for another property)
        rest = []
        for o in occ:
            k = None
            for kk in known.get('findings', []):
                if re.search(kk['class_regex'], cls) and (not kk.get('detail_regex') or re.search(kk['detail_regex'], o[1] or '')):
                    k = kk
                    break
            if k is None:
                rest.append(o)
                continue
            line = 'KNOWN-FINDING: property=%s %s' % (k['property'], k['what'])
            if k['property'] == prop and line not in known_lines:
                known_lines.append(line)
            stat['runs_matching_known_finding'] = stat.get('runs_matching_known_finding', 0) + 1
        if not rest:
            continue
        occ = rest
        seed0, detail0, pi, sub0 = occ[0]
        part = spec['parts'][pi]
        binp = bins[part['flavor']]
        plan = get_plan(binp, part['profile'], seed0)
        if sub0:
            plan['cfg'].setdefault('knobs', {})['fail_at'] = sub0   # the failing allocation index is part of the replay
        base = os.path.join(workdir, 'gate_%d.json' % os.getpid())
        with open(base, 'w') as f:
            json.dump(plan, f)
        c1, r1, tr1, _ = run_replay(binp, base)
        c2, r2, tr2, _ = run_replay(binp, base)
        if not class_matches(cls, c1) or not class_matches(cls, c2) or tr1 != tr2:
            sys.stderr.write('NONDETERMINISM: class %s seed %d: replays gave %s / %s traces %s / %s\n' % (cls, seed0, sorted(c1), sorted(c2), tr1, tr2))
            raise Infra('simulator nondeterminism detected; nothing reported as a violation')
        small, ntests = shrink(binp, plan, cls, workdir, budget_s=45 if tier == 'quick' else 120)
        small['violation'] = dict(cls=cls, property=prop, detail=detail0[:2000], first_seed=seed0, occurrences=len(occ), shrink_tests=ntests, steps_before=len(plan['steps']), steps_after=len(small['steps']))
        small['flavor'] = part['flavor']
        name = '%s-%s-%d%s.json' % (prop, hashlib.sha1(cls.encode()).hexdigest()[:10], seed0, ('-%d' % sub0) if sub0 else '')
        rp = os.path.join(replays_dir, name)
        with open(rp, 'w') as f:
            json.dump(small, f, indent=1)
        c3, _, _, _ = run_replay(binp, rp)
        if not class_matches(cls, c3):
            with open(rp, 'w') as f:
                plan['violation'] = small['violation']
                plan['flavor'] = part['flavor']
                json.dump(plan, f, indent=1)
        new_viol.append((cls, rp, detail0, len(occ), seed0))

    for ln in known_lines:
        print(ln)
    for cls, rp, detail, n, s0 in new_viol:
        print('VIOLATION property=%s replay=%s' % (prop, rp))
        print('  class=%s occurrences=%d first_seed=%d' % (cls, n, s0))
        print('  ' + (detail.strip().splitlines()[0] if cls.startswith(prop) else 'sanitizer/assertion abort; see replay file'))
    if cross:
        print('NOTE: observations belonging to other properties (not part of this verdict): ' + ', '.join('%s x%d' % kv for kv in sorted(cross.items())))
    if unvirt:
        print('NOTE: unvirtualised imports passed through to libc: ' + ' '.join(sorted(set(unvirt))))

    wall = time.time() - t0
    faults = {k2: v for k2, v in stat.items() if k2.startswith('fault_') or k2.startswith('net.')}
    probes = {k2[6:]: v for k2, v in stat.items() if k2.startswith('probe.')}
    zero_probes = [k2 for k2, v in probes.items() if v == 0]
    cov = dict(
        evaluations=agg_runs, distinct_nontrivial=len(shapes), rule=rule or 'see DESIGN.md section 8',
        samples=samples[:4] or [dict(note='no sample produced')],
        nontrivial_runs=agg_nt, parts=part_rows, runs_per_hour=int(agg_runs / wall * 3600) if wall > 0 else 0,
        simulated_seconds=round(virt_s, 1), requests=reqs, transmissions=txs, loop_steps=steps,
        fault_counters=faults, reach_probes=probes, server_behaviours={k2[4:]: v for k2, v in stat.items() if k2.startswith('beh.')},
        other_counters={k2: v for k2, v in stat.items() if not (k2.startswith('probe.') or k2.startswith('fault_') or k2.startswith('net.') or k2.startswith('beh.'))},
        cross_property_observations=cross, seeds_not_run_wall_cap=skipped, whitebox_reads='peek.c' if peek else 'stub (black-box forms)',
        violation_classes_new=[c for c, _, _, _, _ in new_viol], known_findings_reported=known_lines,
        unvirtualised_imports=sorted(set(unvirt)), components=COMPONENTS, exhaustive=False)
    enum = {k2[5:]: v for k2, v in stat.items() if k2.startswith('enum.')}
    if enum:
        cov['enumeration'] = dict(enum, note='per scenario every allocator call index 1..N of the failure-free execution is failed once when scenarios_exhaustive == scenarios; otherwise an evenly spread subset of at most --max-subs indices per scenario (quick tier). exhaustive=false because the scenario family itself is sampled.')
    assumptions = ['seeded sampling: a clean batch is evidence, not proof', 'virtual kernel models Linux socket/epoll semantics as described in DESIGN.md 3.3',
                   'server behaviours are a keyed hash of (seed, server, question, attempt)'] + COMPONENTS
    write_evidence(root, prop, tier, seed, spec['level'], cov, wall, len(new_viol), assumptions)
    if agg_runs == 0:
        raise Infra('no runs executed')
    if not new_viol:
        print('OK property=%s tier=%s executions=%d distinct_nontrivial=%d wall=%.0fs' % (prop, tier, agg_runs, len(shapes), wall))
    return 1 if new_viol else 0


def do_replay(root, path):
    with open(path) as f:
        d = json.load(f)
    fl = d.get('flavor', 'asan')
    binp = build(root, fl)
    classes, rec, tr, se = run_replay(binp, path)
    target = (d.get('violation') or {}).get('cls')
    print('classes: %s trace=%s' % (sorted(classes), tr))
    if 'infra' in classes:
        return 2
    if target:
        if class_matches(target, classes):
            print('VIOLATION property=%s replay=%s' % (d['violation'].get('property', '?'), path))
            return 1
        return 0
    return 1 if classes else 0


def selftest_determinism(root, ids, n=300):
    bad = 0
    for pid in ids:
        for part in PROPS[pid]['parts']:
            binp = build(root, part['flavor'])
            modeb = part.get('modeb', False)
            cnt = n if not modeb else max(200, n)
            a = run_parallel(binp, part['profile'], 777000001, cnt, 600, chunk=cnt // 3 or 1, modeb=modeb)
            b = run_parallel(binp, part['profile'], 777000001, cnt, 600, chunk=cnt // 7 or 1, modeb=modeb)
            ta = {r['seed']: (r['trace'], json.dumps(r.get('viol'), sort_keys=True)) for r in a['runs']}
            tb = {r['seed']: (r['trace'], json.dumps(r.get('viol'), sort_keys=True)) for r in b['runs']}
            da = {d['seed']: d['sig'] for d in a['deaths']}
            db = {d['seed']: d['sig'] for d in b['deaths']}
            diff = [s for s in ta if s in tb and ta[s] != tb[s]]
            ddiff = [s for s in set(da) | set(db) if da.get(s) != db.get(s)]
            print('%s/%s/%s: %d runs twice, %d trace mismatches, deaths %d/%d, death mismatches %d' % (pid, part['profile'], part['flavor'], len(ta), len(diff), len(da), len(db), len(ddiff)))
            if diff:
                print('  mismatching seeds: %s' % diff[:10])
            if ddiff:
                print('  death mismatches: %s' % [(s, da.get(s), db.get(s)) for s in ddiff[:5]])
            bad += len(diff) + len(ddiff)
    return 1 if bad else 0


def selftest_fixed(root):
    """Replay every file under replays/fixed/: the repaired defects must not come back."""
    import glob
    bad = 0
    for f in sorted(glob.glob(os.path.join(root, 'replays', 'fixed', '*.json'))):
        with open(f) as fh:
            d = json.load(fh)
        binp = build(root, d.get('flavor', 'asan'))
        classes, _, _, _ = run_replay(binp, f)
        target = (d.get('violation') or {}).get('cls', '')
        still = class_matches(target, classes) or bool(classes)
        print('%s: %s' % (os.path.basename(f), 'STILL FAILS ' + str(sorted(classes)) if still else 'ok'))
        bad += 1 if still else 0
    return 1 if bad else 0


def selftest_mutants(root, only=None, pattern='mutants'):
    """Apply each sensitivity patch to /repo, run the owning property's quick check in a scratch build tree,
    expect a VIOLATION, and undo the patch."""
    import glob
    repo = os.environ.get('VERIF_REPO', '/repo')
    st = sh(['git', '-C', repo, 'status', '--porcelain', '--untracked-files=no']).stdout.strip()
    if st:
        sys.stderr.write('refusing: %s has uncommitted changes\n' % repo)
        return 2
    files = sorted(glob.glob(os.path.join(root, pattern, '*.patch')) + glob.glob(os.path.join(root, pattern, '*', 'patch.diff')))
    rows = []
    env = dict(os.environ)
    env['VERIF_BUILD_TAG'] = '_mut'
    env['VERIF_REPLAYS_DIR'] = os.path.join(root, 'build', 'work', 'mut_replays')
    env['VERIF_EVIDENCE_DIR'] = os.path.join(root, 'build', 'work', 'mut_evidence')
    env.setdefault('VERIF_QUICK_WALL', '120')
    for f in files:
        name = os.path.basename(f) if f.endswith('.patch') else os.path.basename(os.path.dirname(f))
        prop = name.split('-')[0]
        metaf = os.path.join(os.path.dirname(f), 'meta.json')
        if os.path.exists(metaf) and not f.endswith('.patch'):
            try:
                prop = json.load(open(metaf)).get('property', prop)
            except Exception:
                pass
        if only and prop not in only and name not in only:
            continue
        if prop not in PROPS:
            rows.append((name, prop, 'no check'))
            continue
        a = sh(['git', '-C', repo, 'apply', f])
        if a.returncode != 0:
            rows.append((name, prop, 'patch does not apply'))
            continue
        try:
            t0 = time.time()
            p = subprocess.run([os.path.join(root, 'check'), prop, '--tier', 'quick'], env=env, stdout=subprocess.PIPE, stderr=subprocess.PIPE, text=True)
            v = [ln for ln in p.stdout.splitlines() if ln.startswith('VIOLATION')]
            cls = [ln.strip() for ln in p.stdout.splitlines() if ln.strip().startswith('class=')]
            res = 'CAUGHT' if p.returncode == 1 and v else ('MISSED' if p.returncode == 0 else 'exit %d %s' % (p.returncode, p.stderr[-200:]))
            rows.append((name, prop, '%s in %.0fs %s' % (res, time.time() - t0, (cls[0][:140] if cls else ''))))
        finally:
            sh(['git', '-C', repo, 'checkout', '--', '.'])
        print('%-44s %-4s %s' % rows[-1])
        sys.stdout.flush()
    missed = [r for r in rows if not r[2].startswith('CAUGHT')]
    print('%d patches, %d caught, %d not caught' % (len(rows), len(rows) - len(missed), len(missed)))
    return 1 if missed else 0


def main(root, argv):
    if not argv:
        print(__doc__)
        return 2
    try:
        if argv[0] == 'build':
            for fl in (argv[1:] or ['asan']):
                print(build(root, fl))
            return 0
        if argv[0] == 'replay':
            return do_replay(root, argv[1])
        if argv[0] == 'selftest':
            if argv[1] == 'determinism':
                ids = argv[2:] or [k for k in PROPS if k != 'SMOKE']
                return selftest_determinism(root, ids)
            if argv[1] == 'fixed':
                return selftest_fixed(root)
            if argv[1] == 'mutants':
                return selftest_mutants(root, argv[2:] or None, 'mutants')
            if argv[1] == 'seeded':
                return selftest_mutants(root, argv[2:] or None, 'seeded')
            return 2
        prop = argv[0]
        if prop not in PROPS:
            sys.stderr.write('unknown property %s\n' % prop)
            return 2
        tier = os.environ.get('VERIF_TIER', 'quick')
        if '--tier' in argv:
            tier = argv[argv.index('--tier') + 1]
        seed = int(os.environ.get('VERIF_SEED', DEFAULT_SEED))
        return do_check(root, prop, tier, seed)
    except Infra as e:
        sys.stderr.write('INFRA-FAILURE: %s\n' % e)
        return 2
