// Mode-A engine: application model, ledger, event loop styles, common oracles.
#include "run.h"
#include "simsched.h"
#include <ares_dns_record.h>
#include <arpa/inet.h>
#include <netdb.h>
#include <netinet/tcp.h>
#include <errno.h>
#include <fcntl.h>
#include <stdlib.h>
#include <sys/select.h>
#include <assert.h>
#include <algorithm>

Run *g_run = nullptr;
AllocLedger g_alloc;

const char *step_name[S_NKINDS] = {"?", "req", "adv", "stall", "cancel", "netop", "fault", "forge", "setsrv", "reinit", "chunk", "partition", "srcaddr",
                                   "cookiectl", "file", "inotify", "waitempty", "think", "dup", "saveopt", "csvround", "sortlist", "local", "queryinfo", "heal", "zerodgram"};
const char *req_kind_name[K_NKINDS] = {"send_dnsrec", "send", "query_dnsrec", "query", "search_dnsrec", "search", "getaddrinfo", "gethostbyname", "gethostbyaddr", "getnameinfo"};

extern "C" {
int sim_socket(int, int, int);
int sim_close(int);
int sim_fcntl(int, int, ...);
int sim_setsockopt(int, int, int, const void *, socklen_t);
int sim_bind(int, const struct sockaddr *, socklen_t);
int sim_connect(int, const struct sockaddr *, socklen_t);
int sim_getsockname(int, struct sockaddr *, socklen_t *);
ssize_t sim_sendto(int, const void *, size_t, int, const struct sockaddr *, socklen_t);
ssize_t sim_send(int, const void *, size_t, int);
ssize_t sim_recvfrom(int, void *, size_t, int, struct sockaddr *, socklen_t *);
unsigned int sim_if_nametoindex(const char *);
char *sim_if_indextoname(unsigned int, char *);
}

// ---------------- allocator ledger ----------------
#include <execinfo.h>
extern "C" void __sanitizer_symbolize_pc(void *pc, const char *fmt, char *out, size_t out_size) __attribute__((weak));
static int g_alloc_bt = -1;   // SIM_ALLOC_BT=1: remember where each live block was allocated (reporting aid, slow)
static void blk_fill(AllocLedger::Blk &b, size_t n) {
  b.size = n; b.index = g_alloc.calls; b.nbt = 0;
  if (g_alloc_bt < 0) g_alloc_bt = getenv("SIM_ALLOC_BT") ? 1 : 0;
  if (g_alloc_bt) b.nbt = backtrace(b.bt, 10);
}
static std::string blk_where(const AllocLedger::Blk &b) {
  std::string out;
  if (!__sanitizer_symbolize_pc) return out;
  int shown = 0;
  for (int i = 0; i < b.nbt && shown < 4; i++) {
    char buf[512]; buf[0] = 0;
    __sanitizer_symbolize_pc((char *)b.bt[i] - 1, "%f|%s", buf, sizeof buf);
    std::string f = buf;
    size_t bar = f.find('|');
    if (bar == std::string::npos) continue;
    std::string fn = f.substr(0, bar), file = f.substr(bar + 1);
    if (file.find("/src/lib/") == std::string::npos) continue;
    if (fn == "ares_malloc" || fn == "ares_malloc_zero" || fn == "ares_realloc" || fn == "ares_realloc_zero" || fn == "ares_strdup") continue;
    out += (shown ? " < " : "") + fn; shown++;
  }
  return out;
}
static void report_fail_site() {
  // where the injected failure landed (one backtrace per execution: cheap); part of every C14 violation report
  AllocLedger::Blk b; b.size = 0; b.index = g_alloc.calls; b.nbt = backtrace(b.bt, 10);
  g_alloc.fail_site = blk_where(b);
  if (g_alloc_bt < 0) g_alloc_bt = getenv("SIM_ALLOC_BT") ? 1 : 0;
  if (g_alloc_bt) fprintf(stderr, "ALLOCFAIL #%ld in %s\n", g_alloc.calls, g_alloc.fail_site.c_str());
}
static void *l_malloc(size_t n) {
  if (g_alloc.active) {
    g_alloc.calls++;
    if (g_alloc.fail_at > 0 && g_alloc.calls == g_alloc.fail_at) { g_alloc.failed++; report_fail_site(); return nullptr; }
  }
  void *p = malloc(n ? n : 1);
  if (p && g_alloc.active) blk_fill(g_alloc.live[p], n);
  return p;
}
static void l_free(void *p) {
  if (!p) return;
  if (g_alloc.active) {
    auto it = g_alloc.live.find(p);
    if (it == g_alloc.live.end()) g_alloc.bad_free++;
    else g_alloc.live.erase(it);
  }
  free(p);
}
static void *l_realloc(void *p, size_t n) {
  if (g_alloc.active) {
    g_alloc.calls++;
    if (g_alloc.fail_at > 0 && g_alloc.calls == g_alloc.fail_at) { g_alloc.failed++; report_fail_site(); return nullptr; }
  }
  void *q = realloc(p, n ? n : 1);
  if (q && g_alloc.active) { if (p) g_alloc.live.erase(p); blk_fill(g_alloc.live[q], n); }
  return q;
}
void alloc_install() { ares_library_init_mem(ARES_LIB_INIT_ALL, l_malloc, l_free, l_realloc); }

// ---------------- callbacks ----------------

static void fill_from_hostent(Delivered &d, const struct hostent *h) {
  if (!h) return;
  d.has = true;
  if (h->h_name) d.canon = h->h_name;
  if (h->h_aliases) for (char **a = h->h_aliases; *a; a++) d.aliases.push_back(*a);
  if (h->h_addr_list) for (char **a = h->h_addr_list; *a; a++) d.addrs.emplace_back(std::string(*a, (size_t)h->h_length), -1);
}
static void fill_from_addrinfo(Delivered &d, const struct ares_addrinfo *ai) {
  if (!ai) return;
  d.has = true;
  if (ai->name) d.canon = ai->name;
  for (auto *c = ai->cnames; c; c = c->next) { d.cnames.emplace_back(c->alias ? c->alias : "", c->name ? c->name : ""); d.cname_ttls.push_back(c->ttl); }
  for (auto *n = ai->nodes; n; n = n->ai_next) {
    if (n->ai_family == AF_INET) { auto *s = (const sockaddr_in *)n->ai_addr; d.addrs.emplace_back(std::string((const char *)&s->sin_addr, 4), n->ai_ttl); d.ports.push_back(ntohs(s->sin_port)); }
    else if (n->ai_family == AF_INET6) { auto *s = (const sockaddr_in6 *)n->ai_addr; d.addrs.emplace_back(std::string((const char *)&s->sin6_addr, 16), n->ai_ttl); d.ports.push_back(ntohs(s->sin6_port)); }
  }
}

static void cb_dnsrec(void *arg, ares_status_t st, size_t timeouts, const ares_dns_record_t *rec) {
  CbArg *a = (CbArg *)arg;
  Delivered d;
  if (rec) { d.has = true; ares_to_ref(rec, d.msg); }
  a->run->complete(a->token, (int)st, (int)timeouts, d);
}
void (*g_cb_dnsrec)(void *, ares_status_t, size_t, const ares_dns_record_t *) = cb_dnsrec;
static void cb_legacy(void *arg, int st, int timeouts, unsigned char *abuf, int alen) {
  CbArg *a = (CbArg *)arg;
  Delivered d;
  if (abuf && alen > 0) {
    d.has = true; d.decode_err = dnsref::decode(std::string((const char *)abuf, (size_t)alen), d.msg);
    if (d.decode_err.find("name longer than 255") != std::string::npos) {
      // 256/257-octet names (presentation form within the library's 255-character limit): same lenient second pass as at the servers
      dnsref::g_max_name_octets = 300;
      d.decode_err = dnsref::decode(std::string((const char *)abuf, (size_t)alen), d.msg);
      dnsref::g_max_name_octets = 255;
      W.bump("legacy_buffer_name_over_255_octets");
    }
  }
  a->run->complete(a->token, st, timeouts, d);
}
static void cb_addrinfo(void *arg, int st, int timeouts, struct ares_addrinfo *ai) {
  CbArg *a = (CbArg *)arg;
  Delivered d;
  fill_from_addrinfo(d, ai);
  a->run->complete(a->token, st, timeouts, d);
  if (ai) ares_freeaddrinfo(ai);
}
static void cb_host(void *arg, int st, int timeouts, struct hostent *h) {
  CbArg *a = (CbArg *)arg;
  Delivered d;
  fill_from_hostent(d, h);
  a->run->complete(a->token, st, timeouts, d);
}
static void cb_nameinfo(void *arg, int st, int timeouts, char *node, char *service) {
  CbArg *a = (CbArg *)arg;
  Delivered d;
  if (node) { d.has = true; d.node = node; }
  if (service) d.service = service;
  a->run->complete(a->token, st, timeouts, d);
}
static void cb_sock_state(void *data, ares_socket_t fd, int r, int w) {
  Chan *c = (Chan *)data;
  Run *run = g_run;
  VFd *v = W.get(fd);
  bool open = v && v->open;
  W.log(C_SOCKSTATE_CB, fd, r, 0, w);
  run->sock_events.push_back(Run::SockEv{W.now_us, fd, r, w, W.seq, open});
  if (!v) run->violate("C10", "sockstate_unknown_fd", "socket-state notification for descriptor " + std::to_string(fd) + " that was never opened");
  else if (!open) run->violate("C10", "sockstate_after_close", "socket-state notification (" + std::to_string(r) + "," + std::to_string(w) + ") for descriptor " + std::to_string(fd) + " after it was closed");
  if (r || w) { c->interest[fd] = {r, w}; c->ever_announced[fd] = 1; }
  else {
    if (c->ever_announced.count(fd)) c->final_zero[fd]++;
    c->interest.erase(fd);
  }
}
static void cb_server_state(const char *server, ares_bool_t ok, int flags, void *data) {
  (void)data;
  Run *run = g_run;
  W.log(C_SERVERSTATE_CB, -1, ok, 0, flags);
  run->srv_events.push_back(Run::SrvEv{W.now_us, server ? server : "", ok ? 1 : 0, flags, W.api_seq, W.seq});
}
static void cb_pending_write(void *data) {
  Chan *c = (Chan *)data;
  c->pending_write++;
  g_run->note("pending_write_notified");
}
static int cb_sock_create(ares_socket_t fd, int type, void *data) {
  (void)fd; (void)type; (void)data;
  Run *r = g_run;
  r->sock_create_calls++;
  if (r->cfg.sock_create_cb == 2 && W.faults_enabled && (r->sock_create_calls % 5) == 3) { r->note("sock_create_cb_failed"); return -1; }
  return 0;
}
static int cb_sock_config(ares_socket_t fd, int type, void *data) {
  (void)fd; (void)type; (void)data;
  Run *r = g_run;
  r->sock_config_calls++;
  if (r->cfg.sock_config_cb == 2 && W.faults_enabled && (r->sock_config_calls % 4) == 2) { r->note("sock_config_cb_failed"); return -1; }
  return 0;
}

// ---------------- custom socket functions (public seam) ----------------
static ares_socket_t cs_socket(int d, int t, int p, void *u) { (void)u; int fd = sim_socket(d, t, p); if (fd >= 0) sim_fcntl(fd, F_SETFL, (long)O_NONBLOCK); return fd; }
static int cs_close(ares_socket_t s, void *u) { (void)u; return sim_close(s); }
static int cs_setsockopt(ares_socket_t s, ares_socket_opt_t opt, const void *val, ares_socklen_t len, void *u) {
  (void)u;
  switch (opt) {
    case ARES_SOCKET_OPT_SENDBUF_SIZE: return sim_setsockopt(s, SOL_SOCKET, SO_SNDBUF, val, len);
    case ARES_SOCKET_OPT_RECVBUF_SIZE: return sim_setsockopt(s, SOL_SOCKET, SO_RCVBUF, val, len);
    case ARES_SOCKET_OPT_BIND_DEVICE: return sim_setsockopt(s, SOL_SOCKET, SO_BINDTODEVICE, val, len);
    case ARES_SOCKET_OPT_TCP_FASTOPEN: { int one = 1; return sim_setsockopt(s, IPPROTO_TCP, TCP_FASTOPEN_CONNECT, &one, sizeof one); }
  }
  errno = ENOSYS;
  return -1;
}
static int cs_connect(ares_socket_t s, const struct sockaddr *a, ares_socklen_t l, unsigned int f, void *u) { (void)u; (void)f; return sim_connect(s, a, l); }
static ares_ssize_t cs_recvfrom(ares_socket_t s, void *b, size_t n, int f, struct sockaddr *a, ares_socklen_t *l, void *u) { (void)u; return sim_recvfrom(s, b, n, f, a, l); }
static ares_ssize_t cs_sendto(ares_socket_t s, const void *b, size_t n, int f, const struct sockaddr *a, ares_socklen_t l, void *u) { (void)u; return sim_sendto(s, b, n, f, a, l); }
static int cs_getsockname(ares_socket_t s, struct sockaddr *a, ares_socklen_t *l, void *u) { (void)u; return sim_getsockname(s, a, l); }
static int cs_bind(ares_socket_t s, unsigned int f, const struct sockaddr *a, socklen_t l, void *u) { (void)u; (void)f; return sim_bind(s, a, l); }
static unsigned int cs_nametoindex(const char *n, void *u) { (void)u; return sim_if_nametoindex(n); }
static const char *cs_indextoname(unsigned int i, char *b, size_t l, void *u) { (void)u; (void)l; return sim_if_indextoname(i, b); }

// ---------------- Run ----------------
void Run::violate(const char *prop, const char *oracle, const std::string &detail) {
  for (auto &v : viol) if (v.prop == prop && v.oracle == oracle) return;   // one per class per run
  viol.push_back(Violation{prop, oracle, detail});
}

int Run::outstanding(int chan) const {
  int n = 0;
  for (auto &r : reqs) if (r.accepted && r.cb_count == 0 && (chan < 0 || r.chan == chan)) n++;
  return n;
}

void Run::setup_world() {
  W.reset(cfg.seed);
  W.now_us = cfg.t0_us;
  W.realtime_off_us = 1700000000LL * 1000000LL;
  W.prof = &cfg.prof;
  W.beh_weights = cfg.beh_w; W.beh_weights.resize(B_NBEH, 0);
  W.zone_weights = cfg.zone_w; W.zone_weights.resize(Z_NZ, 0);
  W.min_delay_us = cfg.min_delay; W.max_delay_us = cfg.max_delay < cfg.min_delay ? cfg.min_delay : cfg.max_delay;
  W.faults_enabled = cfg.faults != 0;
  W.fd_reuse = cfg.knob("fd_reuse") != 0;
  W.tc_keeps_negative = cfg.knob("tc_keeps_negative") != 0;
  W.stat["cfg.tfo"] = cfg.tfo;
  W.stat["cfg.default_chunking"] = (cfg.knob("default_chunking") && !cfg.knob("reference") && cfg.faults) ? 1 : 0;
  for (auto &s : cfg.servers) {
    ServerState st;
    st.cfg.addr = addr_parse(s.ip, (uint16_t)s.udp_port);
    st.cfg.tcp_port = (uint16_t)s.tcp_port;
    st.cfg.cookie_mode = s.cookie_mode;
    st.cfg.tcp_refuse = s.tcp_refuse; st.cfg.tcp_blackhole = s.tcp_blackhole;
    W.servers.push_back(st);
  }
  W.set_file("/etc/resolv.conf", cfg.resolv_conf);
  if (!cfg.nsswitch.empty()) W.set_file("/etc/nsswitch.conf", cfg.nsswitch);
  W.set_file("/etc/hosts", cfg.hosts_file.empty() ? std::string("127.0.0.1 localhost\n::1 localhost\n") : cfg.hosts_file);
  if (!cfg.hostaliases.empty()) { W.set_file("/sim/hostaliases", cfg.hostaliases); W.env["HOSTALIASES"] = "/sim/hostaliases"; }
  for (auto &e : cfg.env) W.env[e.first] = e.second;
}

std::string servers_csv(const std::vector<ServerSpec> &all, const std::vector<int> &idx) {
  std::string csv;
  for (int i : idx) {
    const ServerSpec &s = all[(size_t)i];
    if (!csv.empty()) csv += ",";
    bool v6 = s.ip.find(':') != std::string::npos;
    if (s.udp_port == s.tcp_port) {
      csv += v6 ? "[" + s.ip + "]" : s.ip;
      if (s.udp_port != 53 || v6) csv += ":" + std::to_string(s.udp_port);
      if (!s.iface.empty()) csv += "%" + s.iface;
    } else {
      csv += "dns://" + (v6 ? "[" + s.ip + (s.iface.empty() ? "" : "%" + s.iface) + "]" : s.ip) + ":" + std::to_string(s.udp_port) + "?tcpport=" + std::to_string(s.tcp_port);
    }
  }
  return csv;
}

bool Run::make_channel(int idx) {
  if ((int)chans.size() <= idx) chans.resize((size_t)idx + 1);
  chans.reserve(16);
  Chan &c = chans[(size_t)idx];
  c.idx = idx;
  struct ares_options o;
  memset(&o, 0, sizeof o);
  int mask = 0;
  if (cfg.flags >= 0) { o.flags = cfg.flags; mask |= ARES_OPT_FLAGS; }
  if (cfg.timeout_ms >= 0) { o.timeout = cfg.timeout_ms; mask |= ARES_OPT_TIMEOUTMS; }
  if (cfg.tries >= 0) { o.tries = cfg.tries; mask |= ARES_OPT_TRIES; }
  if (cfg.maxtimeout_ms >= 0) { o.maxtimeout = cfg.maxtimeout_ms; mask |= ARES_OPT_MAXTIMEOUTMS; }
  if (cfg.rotate == 1) mask |= ARES_OPT_ROTATE;
  if (cfg.rotate == 0) mask |= ARES_OPT_NOROTATE;
  if (cfg.udp_max_queries >= 0) { o.udp_max_queries = cfg.udp_max_queries; mask |= ARES_OPT_UDP_MAX_QUERIES; }
  if (cfg.ndots >= 0) { o.ndots = cfg.ndots; mask |= ARES_OPT_NDOTS; }
  std::vector<char *> doms;
  if (cfg.set_domains) {
    for (auto &d : cfg.domains) doms.push_back((char *)d.c_str());
    o.domains = doms.empty() ? nullptr : doms.data(); o.ndomains = (int)doms.size(); mask |= ARES_OPT_DOMAINS;
  }
  if (!cfg.lookups.empty()) { o.lookups = (char *)cfg.lookups.c_str(); mask |= ARES_OPT_LOOKUPS; }
  if (cfg.qcache_max_ttl >= 0) { o.qcache_max_ttl = (unsigned)cfg.qcache_max_ttl; mask |= ARES_OPT_QUERY_CACHE; }
  if (cfg.retry_chance >= 0) { o.server_failover_opts.retry_chance = (unsigned short)cfg.retry_chance; o.server_failover_opts.retry_delay = (size_t)(cfg.retry_delay < 0 ? 0 : cfg.retry_delay); mask |= ARES_OPT_SERVER_FAILOVER; }
  if (cfg.ednspsz >= 0) { o.ednspsz = cfg.ednspsz; mask |= ARES_OPT_EDNSPSZ; }
  if (cfg.sndbuf >= 0) { o.socket_send_buffer_size = cfg.sndbuf; mask |= ARES_OPT_SOCK_SNDBUF; }
  if (cfg.rcvbuf >= 0) { o.socket_receive_buffer_size = cfg.rcvbuf; mask |= ARES_OPT_SOCK_RCVBUF; }
  std::vector<struct in_addr> v4;
  if (cfg.server_source == 1) {
    for (auto &s : cfg.servers) { struct in_addr a; if (inet_pton(AF_INET, s.ip.c_str(), &a) == 1) v4.push_back(a); }
    o.servers = v4.data(); o.nservers = (int)v4.size(); mask |= ARES_OPT_SERVERS;
  }
  if (cfg.mode == 1) { o.evsys = (ares_evsys_t)cfg.evsys; mask |= ARES_OPT_EVENT_THREAD; }
  else { o.sock_state_cb = cb_sock_state; o.sock_state_cb_data = &c; mask |= ARES_OPT_SOCK_STATE_CB; }
  W.api_seq++;
  int rc = ares_init_options(&c.ch, &o, mask);
  if (rc != ARES_SUCCESS) { c.ch = nullptr; note("init_failed"); return false; }
  c.alive = true;
  if (cfg.mode == 0 && cfg.sockfuncs > 0) {
    static struct ares_socket_functions_ex f;
    memset(&f, 0, sizeof f);
    f.version = 1;
    f.flags = cfg.sockfuncs == 3 ? 0 : ARES_SOCKFUNC_FLAG_NONBLOCKING;
    f.asocket = cs_socket; f.aclose = cs_close; f.asetsockopt = cs_setsockopt; f.aconnect = cs_connect;
    f.arecvfrom = cs_recvfrom; f.asendto = cs_sendto;
    f.agetsockname = cfg.sockfuncs == 2 ? nullptr : cs_getsockname;
    f.abind = cs_bind; f.aif_nametoindex = cs_nametoindex; f.aif_indextoname = cs_indextoname;
    ares_set_socket_functions_ex(c.ch, &f, nullptr);
  }
  ares_set_server_state_callback(c.ch, cb_server_state, &c);
  if (cfg.mode == 0) {
    if (cfg.pending_write_cb) ares_set_pending_write_cb(c.ch, cb_pending_write, &c);
    if (cfg.sock_create_cb) ares_set_socket_callback(c.ch, cb_sock_create, &c);
    if (cfg.sock_config_cb) ares_set_socket_configure_callback(c.ch, cb_sock_config, &c);
  }
  if (!cfg.local_dev.empty()) ares_set_local_dev(c.ch, cfg.local_dev.c_str());
  if (cfg.local_ip4) ares_set_local_ip4(c.ch, cfg.local_ip4);
  if (cfg.local_ip6) { unsigned char ip6[16] = {0x20, 0x01, 0x0d, 0xb8}; ip6[15] = 0x77; ares_set_local_ip6(c.ch, ip6); }
  if (idx == 0) {
    active.clear();
    int na = (int)cfg.knob("nactive", (int64_t)cfg.servers.size());
    if (na < 1) na = 1;
    for (int i = 0; i < (int)cfg.servers.size() && i < na; i++) active.push_back(i);
    max_active = (int)active.size();
    { ActiveEv ae; ae.seq = W.seq; ae.list = active; ae.end_seq = W.seq; active_hist.push_back(ae); }
  }
  if (cfg.server_source == 0 && !cfg.servers.empty()) {
    W.api_seq++;
    std::string csv = servers_csv(cfg.servers, active);
    int r2 = ares_set_servers_ports_csv(c.ch, csv.c_str());
    if (r2 != ARES_SUCCESS) note("set_servers_failed");
  }
  if ((cfg.server_source == 3 || cfg.server_source == 4) && !cfg.servers.empty()) {
    // the two node-list encodings (addresses only / addresses with per-protocol ports)
    W.api_seq++;
    std::vector<struct ares_addr_node> an(active.size());
    std::vector<struct ares_addr_port_node> apn(active.size());
    for (size_t i = 0; i < active.size(); i++) {
      const ServerSpec &sv = cfg.servers[(size_t)active[i]];
      bool v6 = sv.ip.find(':') != std::string::npos;
      memset(&an[i], 0, sizeof an[i]); memset(&apn[i], 0, sizeof apn[i]);
      an[i].family = apn[i].family = v6 ? AF_INET6 : AF_INET;
      if (v6) { inet_pton(AF_INET6, sv.ip.c_str(), &an[i].addr.addr6); memcpy(&apn[i].addr.addr6, &an[i].addr.addr6, 16); }
      else { inet_pton(AF_INET, sv.ip.c_str(), &an[i].addr.addr4); memcpy(&apn[i].addr.addr4, &an[i].addr.addr4, 4); }
      apn[i].udp_port = sv.udp_port == 53 ? 0 : sv.udp_port; apn[i].tcp_port = sv.tcp_port == 53 ? 0 : sv.tcp_port;
      an[i].next = i + 1 < active.size() ? &an[i + 1] : nullptr;
      apn[i].next = i + 1 < active.size() ? &apn[i + 1] : nullptr;
    }
    int r2 = cfg.server_source == 3 ? ares_set_servers(c.ch, an.data()) : ares_set_servers_ports(c.ch, apn.data());
    if (r2 != ARES_SUCCESS) note("set_servers_failed");
  }
  if (!cfg.sortlist.empty()) ares_set_sortlist(c.ch, cfg.sortlist.c_str());
  if (idx == 0) read_effective();
  return true;
}

void Run::read_effective() {
  Chan &c = chans[0];
  if (!c.alive) return;
  long t = 0, to = 0, mx = 0, nd = 1, rot = 0;
  if (peek_channel_opts(c.ch, &t, &to, &mx, &nd, &rot)) {
    eff_tries = (int)t; eff_timeout_ms = (int)to; eff_maxtimeout_ms = (int)mx; eff_ndots = (int)nd; eff_rotate = (int)rot;
  } else {
    // black-box fallback: what the application set, else the documented defaults
    eff_tries = cfg.tries > 0 ? cfg.tries : 3;
    eff_timeout_ms = cfg.timeout_ms > 0 ? cfg.timeout_ms : 2000;
    eff_maxtimeout_ms = cfg.maxtimeout_ms > 0 ? cfg.maxtimeout_ms : 0;
    eff_ndots = cfg.ndots >= 0 ? cfg.ndots : 1;
    eff_rotate = cfg.rotate == 1;
  }
}

struct SrvChange { int64_t t; bool changed; };

void Run::set_servers_variant(int variant) {
  Chan &c = chans[0];
  if (!c.alive || cfg.servers.empty()) return;
  std::vector<int> nw = active;
  int n = (int)cfg.servers.size();
  switch (variant % 6) {
    case 0: break;                                                   // identical list
    case 1: if (nw.size() > 1) std::swap(nw[0], nw[nw.size() - 1]); break;   // reorder
    case 2: if (nw.size() > 1) nw.erase(nw.begin() + (variant / 6) % (int)nw.size()); break;   // remove one
    case 3: { int add = (variant / 6) % n; bool have = false; for (int i : nw) have |= i == add; if (!have) nw.push_back(add); break; }   // add one
    case 4: { nw.clear(); int k = 1 + (variant / 6) % n; for (int i = 0; i < k; i++) nw.push_back((i + variant / 36) % n); std::sort(nw.begin(), nw.end()); nw.erase(std::unique(nw.begin(), nw.end()), nw.end()); break; }   // replace
    case 5: if (nw.size() > 1) { int f = nw[0]; nw.erase(nw.begin()); nw.push_back(f); } break;   // rotate
  }
  bool changed = nw != active;
  std::vector<int> sa = active, sn = nw;
  std::sort(sa.begin(), sa.end()); std::sort(sn.begin(), sn.end());
  bool set_changed = sa != sn;   // membership change (a pure reorder keeps the same set of servers)
  W.api_seq++;
  std::string csv = servers_csv(cfg.servers, nw);
  // queries of a server being removed are re-sent from inside the call, when the new list is already in force
  { ActiveEv ae; ae.seq = W.seq; ae.list = nw; active_hist.push_back(ae); }
  size_t hist_at = active_hist.size() - 1;
  int rc = ares_set_servers_ports_csv(c.ch, csv.c_str());
  active_hist[hist_at].end_seq = W.seq;
  if (rc == ARES_SUCCESS) {
    // what the library now reports as configured (read-only public accessor)
    char *got = ares_get_servers_csv(c.ch);
    active_hist[hist_at].applied = true;
    active_hist[hist_at].got_csv = got ? got : "";
    if (got) ares_free_string(got);
  }
  if (getenv("SIM_DBG_C09")) fprintf(stderr, "C09 set_servers '%s' rc=%d t=%lld seq=%u\n", csv.c_str(), rc, (long long)W.now_us, W.seq);
  if (rc != ARES_SUCCESS) { ActiveEv ae; ae.seq = W.seq; ae.list = active; ae.end_seq = W.seq; active_hist.push_back(ae); }
  note(changed ? "set_servers_changed" : "set_servers_same");
  W.mix_shape(0x5E70 + (changed ? 1 : 0));
  if (rc == ARES_SUCCESS) {
    active = nw;
    user_set_servers = true;
    if ((int)active.size() > max_active) max_active = (int)active.size();
    srv_list_events.push_back({W.now_us, set_changed ? 1 : (changed ? 3 : 0), W.seq});
  } else note("set_servers_failed");
}

void Run::do_reinit(int chan) {
  Chan &c = chans[(size_t)chan];
  if (!c.alive) return;
  W.api_seq++;
  note("reinit");
  int rc = ares_reinit(c.ch);
  if (rc == ARES_SUCCESS) { srv_list_events.push_back({W.now_us, 2, W.seq}); files_changed_since_init = false; } else note("reinit_failed");
  read_effective();
}

std::string Run::compose_name(int token, int name_sel, int kind) {
  (void)kind;
  std::string base = cfg.names.empty() ? std::string("www.example.test") : cfg.names[(size_t)name_sel % cfg.names.size()];
  if (!cfg.use_tokens) return base;
  if (base.empty() || base == ".") return "t" + std::to_string(token) + (base == "." ? "." : "");
  if (base[0] == '!') return base.substr(1);   // literal name (no token), e.g. "localhost" or an IP literal
  if (cfg.knob("token_style") == 2) {
    // token inside the first label (keeps the number of dots of the base name): first-tNN.rest
    size_t dot = 0;   // first label separator (an escaped dot is part of the label)
    while (dot < base.size() && base[dot] != '.') dot += (base[dot] == '\\' && dot + 1 < base.size()) ? 2 : 1;
    if (dot >= base.size()) dot = std::string::npos;
    std::string first = dot == std::string::npos ? base : base.substr(0, dot);
    return first + "-t" + std::to_string(token) + (dot == std::string::npos ? "" : base.substr(dot));
  }
  return "t" + std::to_string(token) + "." + base;
}

static int class_for(int sel) { (void)sel; return 1; }

int Run::submit(int kind, int name_sel, int type_sel, int reaction, int react_kind, bool from_cb, int chan, int fam_sel) {
  if (chan < 0 || chan >= (int)chans.size()) return -1;
  Chan &c = chans[(size_t)chan];
  if (!c.alive || c.destroying || !c.ch) return -1;
  if ((int)reqs.size() >= 400) return -1;
  reqs.reserve(512);
  int token = (int)reqs.size();
  reqs.emplace_back();
  cbargs.emplace_back(new CbArg{this, token});
  CbArg *arg = cbargs.back().get();
  {
    Req &r = reqs.back();
    r.token = token; r.kind = kind; r.chan = chan; r.reaction = reaction; r.react_kind = react_kind; r.from_callback = from_cb;
    r.t_submit = W.now_us; r.tx_at_submit = (int)W.txs.size();
    r.thread = sim_tid();
    r.qtype = cfg.qtypes.empty() ? 1 : cfg.qtypes[(size_t)type_sel % cfg.qtypes.size()];
    r.qclass = class_for(type_sel);
    r.name = compose_name(token, name_sel, kind);
    r.accepted = true; r.in_call = true;
    r.rd = (cfg.flags >= 0 && (cfg.flags & ARES_FLAG_NORECURSE)) ? 0 : 1;
  }
  note(std::string("req.") + req_kind_name[kind]);
  if (from_cb) note("req_from_callback");
  W.mix_shape(0xA000 + (uint64_t)kind + (from_cb ? 64 : 0));
  if (!from_cb) W.api_seq++;
  std::string name = reqs[(size_t)token].name;
  int qtype = reqs[(size_t)token].qtype, qclass = reqs[(size_t)token].qclass;
  int ret = 0;
  switch (kind) {
    case K_SEND_DNSREC: case K_SEARCH_DNSREC: {
      ares_dns_record_t *rec = nullptr;
      bool rd = (type_sel >> 4) & 1 ? false : true;
      bool cd = ((type_sel >> 5) & 3) == 3;
      reqs[(size_t)token].rd = rd; reqs[(size_t)token].cd = cd;
      unsigned short fl = (unsigned short)((rd ? ARES_FLAG_RD : 0) | (cd ? ARES_FLAG_CD : 0));
      if (ares_dns_record_create(&rec, 0, fl, ARES_OPCODE_QUERY, ARES_RCODE_NOERROR) != ARES_SUCCESS) { ret = ARES_ENOMEM; Delivered d; complete(token, ret, 0, d); break; }
      ares_status_t st = ares_dns_record_query_add(rec, name.c_str(), (ares_dns_rec_type_t)qtype, (ares_dns_class_t)qclass);
      if (st == ARES_SUCCESS && ((fam_sel & 1) || (cfg.flags >= 0 && (cfg.flags & ARES_FLAG_EDNS)) || cfg.flags < 0)) {
        ares_dns_rr_t *rr = nullptr;
        if (ares_dns_record_rr_add(&rr, rec, ARES_SECTION_ADDITIONAL, "", ARES_REC_TYPE_OPT, ARES_CLASS_IN, 0) == ARES_SUCCESS) {
          ares_dns_rr_set_u16(rr, ARES_RR_OPT_UDP_SIZE, 1232);
          ares_dns_rr_set_u8(rr, ARES_RR_OPT_VERSION, 0);
          ares_dns_rr_set_u16(rr, ARES_RR_OPT_FLAGS, 0);
        }
      }
      if (st != ARES_SUCCESS) {
        // the name was rejected before the library accepted a request: not a request
        reqs[(size_t)token].accepted = false; reqs[(size_t)token].api_ret = st;
        note("name_rejected_by_builder");
        ares_dns_record_destroy(rec);
        break;
      }
      if (kind == K_SEND_DNSREC) ret = ares_send_dnsrec(c.ch, rec, cb_dnsrec, arg, nullptr);
      else ret = ares_search_dnsrec(c.ch, rec, cb_dnsrec, arg);
      ares_dns_record_destroy(rec);
      break;
    }
    case K_SEND: {
      unsigned char *buf = nullptr; int len = 0;
      int edns = (cfg.flags < 0 || (cfg.flags & ARES_FLAG_EDNS)) ? 1232 : 0;
      int st = ares_create_query(name.c_str(), qclass, qtype, 0, reqs[(size_t)token].rd, &buf, &len, edns);
      if (st != ARES_SUCCESS) { reqs[(size_t)token].accepted = false; reqs[(size_t)token].api_ret = st; note("name_rejected_by_builder"); break; }
      ares_send(c.ch, buf, len, cb_legacy, arg);
      ares_free_string(buf);
      break;
    }
    case K_QUERY_DNSREC: ret = ares_query_dnsrec(c.ch, name.c_str(), (ares_dns_class_t)qclass, (ares_dns_rec_type_t)qtype, cb_dnsrec, arg, nullptr); break;
    case K_QUERY: ares_query(c.ch, name.c_str(), qclass, qtype, cb_legacy, arg); break;
    case K_SEARCH: ares_search(c.ch, name.c_str(), qclass, qtype, cb_legacy, arg); break;
    case K_GETADDRINFO: {
      struct ares_addrinfo_hints h; memset(&h, 0, sizeof h);
      int fams[3] = {AF_UNSPEC, AF_INET, AF_INET6};
      h.ai_family = fams[fam_sel % 3];
      if (cfg.knob("single_family")) h.ai_family = (fam_sel & 1) ? AF_INET6 : AF_INET;
      h.ai_flags = 0;
      if ((fam_sel / 3) & 1) h.ai_flags |= ARES_AI_CANONNAME;
      if ((fam_sel / 6) & 1) h.ai_flags |= ARES_AI_NOSORT;
      int port = ((fam_sel / 12) & 1) ? 8000 + (token % 1000) : 0;
      std::string svc = port ? std::to_string(port) : "";
      if (port) h.ai_flags |= ARES_AI_NUMERICSERV;
      reqs[(size_t)token].family = h.ai_family; reqs[(size_t)token].port = port; reqs[(size_t)token].ai_flags = h.ai_flags;
      ares_getaddrinfo(c.ch, name.c_str(), port ? svc.c_str() : nullptr, &h, cb_addrinfo, arg);
      break;
    }
    case K_GETHOSTBYNAME: {
      int fams[3] = {AF_INET, AF_INET6, AF_UNSPEC};
      int fam = fams[fam_sel % 3];
      if (cfg.knob("single_family") && fam == AF_UNSPEC) fam = AF_INET;
      reqs[(size_t)token].family = fam;
      ares_gethostbyname(c.ch, name.c_str(), fam, cb_host, arg);
      break;
    }
    case K_GETHOSTBYADDR: case K_GETNAMEINFO: {
      bool v6 = fam_sel & 1;
      unsigned char a[16] = {0};
      if (!v6) { a[0] = 10; a[1] = 201; a[2] = (unsigned char)(token >> 8); a[3] = (unsigned char)(token & 255); }
      else { a[0] = 0xfd; a[1] = 0x77; a[14] = (unsigned char)(token >> 8); a[15] = (unsigned char)(token & 255); a[7] = (unsigned char)(name_sel & 0xff); }
      // a share of reverse lookups asks for an address the virtual hosts file lists (10.77.0.1 / fd77::1), so both sources know it
      if ((int)(type_sel % 100) < (int)cfg.knob("reverse_hosts_pct", 0)) { memset(a, 0, sizeof a); if (!v6) { a[0] = 10; a[1] = 77; a[3] = 1; } else { a[0] = 0xfd; a[1] = 0x77; a[15] = 1; } }
      reqs[(size_t)token].family = v6 ? AF_INET6 : AF_INET;
      reqs[(size_t)token].addr_bytes.assign((const char *)a, v6 ? 16 : 4);
      reqs[(size_t)token].qtype = 12;
      if (kind == K_GETHOSTBYADDR) ares_gethostbyaddr(c.ch, a, v6 ? 16 : 4, v6 ? AF_INET6 : AF_INET, cb_host, arg);
      else {
        struct sockaddr_storage ss; memset(&ss, 0, sizeof ss);
        socklen_t sl;
        if (!v6) { auto *s = (sockaddr_in *)&ss; s->sin_family = AF_INET; memcpy(&s->sin_addr, a, 4); s->sin_port = htons(80); sl = sizeof *s; }
        else { auto *s = (sockaddr_in6 *)&ss; s->sin6_family = AF_INET6; memcpy(&s->sin6_addr, a, 16); s->sin6_port = htons(443); sl = sizeof *s; }
        int fl = ARES_NI_LOOKUPHOST | ((fam_sel & 2) ? ARES_NI_LOOKUPSERVICE : 0) | ((fam_sel & 4) ? ARES_NI_NAMEREQD : 0);
        reqs[(size_t)token].ai_flags = fl;
        ares_getnameinfo(c.ch, (struct sockaddr *)&ss, sl, fl, cb_nameinfo, arg);
      }
      break;
    }
  }
  Req &r = reqs[(size_t)token];
  r.api_ret = r.accepted ? ret : r.api_ret;
  r.in_call = false;
  if (r.accepted && r.cb_count == 0) settled_outstanding++;
  if (r.cb_count > 0) { r.done_sync = true; note("req_done_sync"); }
  return token;
}

int Run::pick_kind(int64_t a) const {
  int64_t mask = cfg.knob("kind_mask", (1 << K_NKINDS) - 1);
  std::vector<int> ks;
  for (int k = 0; k < K_NKINDS; k++) if (mask & (1 << k)) ks.push_back(k);
  if (ks.empty()) return (int)(a % K_NKINDS);
  return ks[(size_t)a % ks.size()];
}

void Run::complete(int token, int status, int timeouts, Delivered &d) {
  if (token < 0 || token >= (int)reqs.size()) return;
  Req &r0 = reqs[(size_t)token];
  r0.cb_count++;
  W.log(C_USER_CB, token, status, 0, r0.cb_count);
  W.mix_shape(0xCB00 + (uint64_t)(status & 0x3f));
  if (r0.cb_count > 1) {
    violate("C01", "double_callback", "request " + std::to_string(token) + " (" + req_kind_name[r0.kind] + " " + r0.name + ") got callback #" + std::to_string(r0.cb_count) + " with status " + ares_status_name(status) + " (first was " + ares_status_name(r0.status) + ")");
    return;
  }
  if (!r0.in_call && r0.accepted) { if (--settled_outstanding == 0) settled_zero_transitions++; }
  Chan &c = chans[(size_t)r0.chan];
  if (!c.alive) { r0.cb_after_destroy = true; violate("C01", "callback_after_destroy", "request " + std::to_string(token) + " completed after ares_destroy returned"); }
  r0.status = status; r0.timeouts = timeouts; r0.t_done = W.now_us; r0.tx_at_done = (int)W.txs.size();
  r0.got = d;
  if (d.has) {
    if (d.decode_err.empty()) markers_in_msg(d.msg, r0.markers);
    for (auto &a : d.addrs) { int m = marker_of_addr(a.first); if (m >= 0) r0.markers.push_back((uint32_t)m); }
    for (auto &cn : d.cnames) { int m = marker_of_name_text(cn.second); if (m >= 0) r0.markers.push_back((uint32_t)m); }
    if (!d.canon.empty()) { int m = marker_of_name_text(d.canon); if (m >= 0) r0.markers.push_back((uint32_t)m); }
    for (auto &al : d.aliases) { int m = marker_of_name_text(al); if (m >= 0) r0.markers.push_back((uint32_t)m); }
    if (!d.node.empty()) { int m = marker_of_name_text(d.node); if (m >= 0) r0.markers.push_back((uint32_t)m); }
  }
  note(std::string("status.") + ares_status_name(status));
  if (on_done) on_done(*this, reqs[(size_t)token]);
  // reaction (never on destruction; never re-entrantly nested more than one level)
  int reaction = reqs[(size_t)token].reaction, rk = reqs[(size_t)token].react_kind, chan = reqs[(size_t)token].chan;
  if (status == ARES_EDESTRUCTION || c.destroying || !c.alive || reaction == R_NONE) return;
  W.cb_depth++;
  switch (reaction) {
    case R_NEWREQ:
      note("reaction_newreq");
      submit(rk % K_NKINDS, token * 7 + 3, token + rk, R_NONE, 0, true, chan, token % 5);
      break;
    case R_CANCEL:
      if (cfg.allow_cancel_in_cb) { note("cancel_in_callback"); W.mix_shape(0xCA11); ares_cancel(c.ch); }
      break;
    case R_TIMEOUTQ: { struct timeval tv; ares_timeout(c.ch, nullptr, &tv); note("reaction_timeoutq"); break; }
    case R_ACTIVEQ: { (void)ares_queue_active_queries(c.ch); note("reaction_activeq"); break; }
  }
  W.cb_depth--;
}

void Run::do_cancel(int chan) {
  Chan &c = chans[(size_t)chan];
  if (!c.alive || !c.ch) return;
  std::vector<int> out;
  for (auto &r : reqs) if (r.accepted && r.cb_count == 0 && r.chan == chan && !r.in_call) out.push_back(r.token);   // a request another thread is still submitting may not be queued yet
  W.api_seq++;
  note("cancel_toplevel");
  if (!out.empty()) note("cancel_with_outstanding");
  ares_cancel(c.ch);
  for (int t : out) {
    Req &r = reqs[(size_t)t];
    if (r.cb_count == 0) violate("C01", "cancel_incomplete", "request " + std::to_string(t) + " (" + req_kind_name[r.kind] + ") was outstanding when ares_cancel was called and has no callback after it returned");
  }
}

int64_t Run::hint_time(int chan) {
  Chan &c = chans[(size_t)chan];
  if (!c.alive) return -1;
  struct timeval tv;
  struct timeval *r = ares_timeout(c.ch, nullptr, &tv);
  if (!r) return -1;
  return W.now_us + (int64_t)r->tv_sec * 1000000 + r->tv_usec;
}

bool Run::ready_now(int chan) {
  Chan &c = chans[(size_t)chan];
  if (!c.alive) return false;
  if (c.pending_write) return true;
  for (auto &p : c.interest) {
    VFd *v = W.get(p.first);
    if (!v || !v->open) continue;
    if (p.second.first && (W.readable(*v) || W.errored(*v))) return true;
    if (p.second.second && W.writable(*v)) return true;
  }
  return false;
}

void Run::process_ready(int chan, int subset_sel, bool skip_non_fd) {
  Chan &c = chans[(size_t)chan];
  if (!c.alive || !c.ch) return;
  W.api_seq++;
  if (c.pending_write) { c.pending_write = 0; ares_process_pending_write(c.ch); note("process_pending_write"); }
  int style = cfg.loop_style;
  if (style == 1 && W.next_fd >= FD_SETSIZE) { style = 0; note("fdset_style_abandoned"); }
  if (style == 0) {
    std::vector<ares_fd_events_t> ev;
    for (auto &p : c.interest) {
      VFd *v = W.get(p.first);
      if (!v || !v->open) continue;
      unsigned e = 0;
      if (p.second.first && (W.readable(*v) || W.errored(*v))) e |= ARES_FD_EVENT_READ;
      if (p.second.second && W.writable(*v)) e |= ARES_FD_EVENT_WRITE;
      if (e) { ares_fd_events_t x; x.fd = p.first; x.events = e; ev.push_back(x); }
    }
    if (subset_sel > 0 && ev.size() > 1) { ares_fd_events_t one = ev[(size_t)(subset_sel - 1) % ev.size()]; ev.clear(); ev.push_back(one); note("process_subset"); }
    if (!ev.empty()) note("process_with_events");
    proc_calls.push_back({W.seq, W.now_us});
    ares_process_fds(c.ch, ev.empty() ? nullptr : ev.data(), ev.size(), skip_non_fd ? ARES_PROCESS_FLAG_SKIP_NON_FD : ARES_PROCESS_FLAG_NONE);
  } else if (style == 1) {
    fd_set rs, ws, rr, wr;
    FD_ZERO(&rs); FD_ZERO(&ws); FD_ZERO(&rr); FD_ZERO(&wr);
    int nfds = ares_fds(c.ch, &rs, &ws);
    int any = 0;
    for (int fd = 0; fd < nfds && fd < FD_SETSIZE; fd++) {
      VFd *v = W.get(fd);
      if (!v || !v->open) continue;
      if (FD_ISSET(fd, &rs) && (W.readable(*v) || W.errored(*v))) { FD_SET(fd, &rr); any++; }
      if (FD_ISSET(fd, &ws) && W.writable(*v)) { FD_SET(fd, &wr); any++; }
    }
    if (any) note("process_with_events");
    proc_calls.push_back({W.seq, W.now_us});
    ares_process(c.ch, &rr, &wr);
  } else {
    ares_socket_t socks[ARES_GETSOCK_MAXNUM];
    int bm = ares_getsock(c.ch, socks, ARES_GETSOCK_MAXNUM);
    bool any = false;
    std::vector<std::pair<int, int>> todo;
    for (int i = 0; i < ARES_GETSOCK_MAXNUM; i++) {
      bool wr = ARES_GETSOCK_READABLE(bm, i), ww = ARES_GETSOCK_WRITABLE(bm, i);
      if (!wr && !ww) continue;
      VFd *v = W.get(socks[i]);
      if (!v || !v->open) continue;
      int rfd = (wr && (W.readable(*v) || W.errored(*v))) ? socks[i] : ARES_SOCKET_BAD;
      int wfd = (ww && W.writable(*v)) ? socks[i] : ARES_SOCKET_BAD;
      if (rfd != ARES_SOCKET_BAD || wfd != ARES_SOCKET_BAD) todo.emplace_back(rfd, wfd);
    }
    // the sock_state callback may know about more than 16 sockets; serve those too
    for (auto &p : c.interest) {
      bool listed = false;
      for (int i = 0; i < ARES_GETSOCK_MAXNUM; i++) if ((ARES_GETSOCK_READABLE(bm, i) || ARES_GETSOCK_WRITABLE(bm, i)) && socks[i] == p.first) listed = true;
      if (listed) continue;
      VFd *v = W.get(p.first);
      if (!v || !v->open) continue;
      int rfd = (p.second.first && (W.readable(*v) || W.errored(*v))) ? p.first : ARES_SOCKET_BAD;
      int wfd = (p.second.second && W.writable(*v)) ? p.first : ARES_SOCKET_BAD;
      if (rfd != ARES_SOCKET_BAD || wfd != ARES_SOCKET_BAD) todo.emplace_back(rfd, wfd);
    }
    for (auto &t : todo) {
      if (!c.alive) break;
      // re-check liveness of descriptors: an earlier call may have closed them
      VFd *v = W.get(t.first != ARES_SOCKET_BAD ? t.first : t.second);
      if (!v || !v->open) continue;
      any = true;
      proc_calls.push_back({W.seq, W.now_us});
      ares_process_fd(c.ch, t.first, t.second);
    }
    if (any) note("process_with_events");
    else { proc_calls.push_back({W.seq, W.now_us}); ares_process_fd(c.ch, ARES_SOCKET_BAD, ARES_SOCKET_BAD); }
  }
}

void Run::check_invariants(const char *where) {
  // C10: calls on dead descriptors
  if (!W.protocol_violations.empty()) violate("C10", "call_on_closed_fd", W.protocol_violations[0] + " (" + where + ")");
  for (auto &c : chans) {
    if (!c.alive || !c.ch) continue;
    // ---- C07: timeout hint soundness ----
    {
      struct timeval tv, maxtv, *r;
      int which = (int)aux.below(3);
      maxtv.tv_sec = which == 1 ? 0 : (time_t)aux.below(8); maxtv.tv_usec = which == 1 ? 0 : (suseconds_t)aux.below(1000000);
      r = ares_timeout(c.ch, which == 0 ? nullptr : &maxtv, &tv);
      long long dl = 0;
      int has = peek_available() ? peek_earliest_deadline(c.ch, &dl) : -1;
      if (r) {
        int64_t hint = (int64_t)r->tv_sec * 1000000 + r->tv_usec;
        if (r->tv_sec < 0 || r->tv_usec < 0 || r->tv_usec >= 1000000) violate("C07", "hint_negative", "ares_timeout returned " + std::to_string((long long)r->tv_sec) + "s " + std::to_string((long long)r->tv_usec) + "us");
        if (which != 0) {
          int64_t mx = (int64_t)maxtv.tv_sec * 1000000 + maxtv.tv_usec;
          if (hint > mx) violate("C07", "hint_exceeds_max", "hint " + std::to_string(hint) + "us > caller maximum " + std::to_string(mx) + "us");
        }
        if (has == 1) {
          int64_t rem = dl - W.now_us; if (rem < 0) rem = 0;
          if (hint > rem) violate("C07", "hint_later_than_deadline", "hint " + std::to_string(hint) + "us but earliest deadline is in " + std::to_string(rem) + "us");
          note("hint_checked_with_deadline");
        }
      } else {
        if (has == 1) violate("C07", "hint_null_with_deadline", "ares_timeout returned NULL while a query has a deadline");
      }
      if (has == 0 && r && which == 0) violate("C07", "hint_without_deadline", "ares_timeout returned a value without maxtv although no query has a deadline");
    }
    // ---- C10: legacy descriptor sets vs open sockets ----
    if (W.next_fd < FD_SETSIZE) {   // fd_set based calls are only legal while every descriptor is below FD_SETSIZE
      fd_set rs, ws; FD_ZERO(&rs); FD_ZERO(&ws);
      int nfds = ares_fds(c.ch, &rs, &ws);
      bool active = ares_queue_active_queries(c.ch) > 0;
      std::vector<int> open = W.open_sockets();
      std::set<int> expect;
      for (int fd : open) { VFd *v = W.get(fd); if (v->owner_chan >= 0 && v->owner_chan != c.idx) continue; if (v->kind == FD_TCP || active) expect.insert(fd); }
      if (chans.size() == 1) {
        for (int fd = 0; fd < FD_SETSIZE; fd++) {
          bool inr = FD_ISSET(fd, &rs), inw = FD_ISSET(fd, &ws);
          if (!inr && !inw) continue;
          VFd *v = W.get(fd);
          if (!v || !v->open) { violate("C10", "fds_reports_dead_fd", "ares_fds reports descriptor " + std::to_string(fd) + " which is " + (v ? "closed" : "unknown")); continue; }
          if (inw && !inr) violate("C10", "fds_write_not_in_read", "ares_fds write set contains " + std::to_string(fd) + " that the read set lacks");
          if (fd >= nfds) violate("C10", "fds_nfds_too_small", "ares_fds returned nfds " + std::to_string(nfds) + " but set contains " + std::to_string(fd));
        }
        for (int fd : expect) if (fd < FD_SETSIZE && !FD_ISSET(fd, &rs)) violate("C10", "fds_missing_socket", "open socket " + std::to_string(fd) + " missing from ares_fds read set (active=" + std::to_string(active) + ")");
        for (int fd = 0; fd < FD_SETSIZE; fd++) if (FD_ISSET(fd, &rs) && !expect.count(fd) && W.get(fd) && W.get(fd)->open) violate("C10", "fds_extra_socket", "ares_fds read set contains " + std::to_string(fd) + " which does not matter (udp without active queries)");
        for (int fd : open) { VFd *v = W.get(fd); if (v->kind == FD_TCP && v->write_blocked && v->tstate == TS_ESTABLISHED && fd < FD_SETSIZE && !FD_ISSET(fd, &ws)) violate("C10", "fds_missing_write", "tcp socket " + std::to_string(fd) + " has a pending partial write but is not in the write set"); }
        // the application's array may be larger than the 16 entries the returned bitmask can describe
        ares_socket_t socks[48];
        const ares_socket_t untouched = (ares_socket_t)-7777;
        for (auto &x : socks) x = untouched;
        int numsocks = (int)cfg.knob("getsock_numsocks", ARES_GETSOCK_MAXNUM);
        if (numsocks < 1 || numsocks > 48) numsocks = ARES_GETSOCK_MAXNUM;
        int bm = ares_getsock(c.ch, socks, numsocks);
        for (int i = ARES_GETSOCK_MAXNUM; i < 48; i++) if (socks[i] != untouched) { violate("C10", "getsock_entry_beyond_bitmask", "ares_getsock(numsocks=" + std::to_string(numsocks) + ") filled array entry " + std::to_string(i) + " (socket " + std::to_string(socks[i]) + "), which the 16-socket bitmask cannot describe"); break; }
        if (numsocks > ARES_GETSOCK_MAXNUM) note("getsock_with_large_array");
        if (numsocks < ARES_GETSOCK_MAXNUM) for (int i = numsocks; i < ARES_GETSOCK_MAXNUM; i++) if (socks[i] != untouched) { violate("C10", "getsock_entry_beyond_array", "ares_getsock(numsocks=" + std::to_string(numsocks) + ") wrote array entry " + std::to_string(i)); break; }
        int listed = 0;
        for (int i = 0; i < ARES_GETSOCK_MAXNUM; i++) {
          bool r = ARES_GETSOCK_READABLE(bm, i), w = ARES_GETSOCK_WRITABLE(bm, i);
          if (!r && !w) continue;
          listed++;
          VFd *v = W.get(socks[i]);
          if (!v || !v->open) violate("C10", "getsock_reports_dead_fd", "ares_getsock reports descriptor " + std::to_string(socks[i]) + " which is not open");
          else if (!expect.count(socks[i])) violate("C10", "getsock_extra_socket", "ares_getsock reports " + std::to_string(socks[i]) + " which does not matter");
          if (w && !r) violate("C10", "getsock_write_not_read", "ares_getsock marks " + std::to_string(socks[i]) + " writable only");
        }
        size_t cap = (size_t)(numsocks < ARES_GETSOCK_MAXNUM ? numsocks : ARES_GETSOCK_MAXNUM);
        size_t want = expect.size() < cap ? expect.size() : cap;
        if ((size_t)listed != want) violate("C10", "getsock_count", "ares_getsock lists " + std::to_string(listed) + " sockets, expected " + std::to_string(want));
      }
    }
  }
}

void Run::exec_step(const Step &s) {
  steps_done++;
  W.mix_shape(0x5700 + (uint64_t)s.k);
  int chan = 0;
  // plan-level disturbances, counted per kind for the evidence file (socket-call and network faults are counted where they fire)
  switch (s.k) {
    case S_STALL: W.bump(s.a < 0 || s.a >= 60000 ? "fault_fired.clock_jump_minutes_to_days" : "fault_fired.application_stall"); break;
    case S_CANCEL: W.bump("fault_fired.cancel_all_in_flight"); break;
    case S_FORGE: W.bump("fault_fired.forged_or_stale_packet"); break;
    case S_SETSRV: W.bump("fault_fired.server_list_edit_in_flight"); break;
    case S_REINIT: W.bump("fault_fired.reinit_in_flight"); break;
    case S_CHUNK: W.bump("fault_fired.tcp_stream_rechunked"); break;
    case S_SRCADDR: W.bump("fault_fired.source_address_change"); break;
    case S_COOKIECTL: W.bump("fault_fired.server_cookie_support_toggled"); break;
    case S_FILE: W.bump("fault_fired.config_file_rewritten"); break;
    case S_INOTIFY: W.bump("fault_fired.config_change_notification"); break;
    case S_HEAL: W.bump("fault_fired.partition_healed"); break;
    default: break;
  }
  switch (s.k) {
    case S_REQ: if (pre_req && pre_req(*this, s)) break; submit(pick_kind(s.a), (int)s.b, (int)s.c, (int)(s.d % R_NREACT), (int)(s.d / R_NREACT), false, chan, (int)(s.d / (R_NREACT * K_NKINDS) + s.c / 7)); break;
    case S_CANCEL: do_cancel(chan); break;
    case S_STALL:
      stalls.push_back({W.now_us, 0});
      if (s.a < 0) W.now_us += (1000000 - W.now_us % 1000000) + (-s.a - 1) * 1000000;   // land exactly on a whole second, |a|-1 seconds further
      else W.now_us += (int64_t)s.a * 1000;
      stalls.back().second = W.now_us;
      W.deliver_due(); note("stall"); break;
    case S_ADV: {
      int64_t tf = W.next_flight_time();
      int64_t th = hint_time(chan);
      int64_t t = -1;
      if (s.a == 2) t = th >= 0 ? th : tf;
      else { t = tf; if (th >= 0 && (t < 0 || th < t)) t = th; }
      if (s.a == 3) t = W.now_us;
      // level-triggered loop: a descriptor the application watches that is ready right now makes the wait return at once
      if (s.a != 2 && ready_now(chan)) { t = W.now_us; note("adv_ready_now"); }
      if (t < 0) { note("adv_idle"); if (outstanding() == 0) break; t = W.now_us; }
      if (s.a == 1) t += s.c;
      if (t == th) note("adv_to_hint"); else if (t == tf) note("adv_to_flight");
      if (t > W.now_us) W.now_us = t;
      W.deliver_due();
      int expired_before = peek_available() && chans[0].alive ? peek_expired_in_index(chans[0].ch, W.now_us) : 0;
      int tx_before = (int)W.txs.size();
      int cb_before = 0; for (auto &r : reqs) cb_before += r.cb_count;
      process_ready(chan, (int)s.b);
      if (expired_before > 0 && chans[0].alive) {
        note("adv_with_expired");
        // C07: after processing at/after the deadline no expired query may remain indexed
        int still = peek_expired_in_index(chans[0].ch, W.now_us);
        if (still > 0) violate("C07", "expired_not_processed", std::to_string(still) + " query deadline(s) <= now still pending after a process call (" + std::to_string(expired_before) + " before)");
        int cb_after = 0; for (auto &r : reqs) cb_after += r.cb_count;
        if ((int)W.txs.size() == tx_before && cb_after == cb_before && W.fault_fired.empty()) note("expired_no_visible_effect");
      }
      break;
    }
    case S_NETOP: {
      std::vector<int> live;
      for (auto &f : W.flights) if (!f.done) live.push_back(f.id);
      if (live.empty() || !W.faults_enabled) break;
      Flight &f = W.flights[(size_t)live[(size_t)s.b % live.size()]];
      switch (s.a % 5) {
        case 0: f.done = true; W.bump("net.drop"); break;
        case 1: W.add_flight(f.kind, f.at + 1 + s.c % 100000, f.fd, f.data, f.src, f.resp_id); W.bump("net.dup"); break;
        case 2: f.at += 1000 + (s.c % 3000000); W.bump("net.delay"); break;
        case 3: if (f.data.size() > 12 && (f.kind == FL_DGRAM)) {
          // corrupt only the header / question region: answer data (which carries the provenance markers) is never forged by noise
          size_t lim = 12; while (lim < f.data.size() && f.data[lim] != 0 && (unsigned char)f.data[lim] < 64) lim += 1 + (unsigned char)f.data[lim]; lim += 5; if (lim > f.data.size()) lim = f.data.size();
          f.data[(size_t)(s.c % (int64_t)lim)] ^= (char)(1 + (s.c >> 8) % 255); if (f.resp_id >= 0) { W.resps[(size_t)f.resp_id].tainted = true; } W.bump("net.corrupt"); } break;
        case 4: f.at = W.now_us; W.bump("net.expedite"); break;
      }
      break;
    }
    case S_FAULT: {
      if (!W.faults_enabled || cfg.knob("reference")) break;
      static const int errs[FC_NCLASSES][6] = {
        {EMFILE, ENOBUFS, EAFNOSUPPORT, EMFILE, ENFILE, EACCES}, {EINVAL, ENOPROTOOPT, EINVAL, ENOBUFS, EINVAL, ENOPROTOOPT}, {EADDRINUSE, EADDRNOTAVAIL, EADDRINUSE, EACCES, EADDRNOTAVAIL, EINVAL},
        {ECONNREFUSED, ENETUNREACH, EHOSTUNREACH, EINTR, EADDRNOTAVAIL, ETIMEDOUT}, {ENOBUFS, EBADF, ENOBUFS, ENOBUFS, EINVAL, ENOBUFS}, {EAGAIN, EINTR, ECONNREFUSED, EPIPE, ENETDOWN, ECONNRESET},
        {EAGAIN, EINTR, ECONNRESET, ECONNREFUSED, ENETDOWN, ETIMEDOUT}, {EINTR, EINTR, EINTR, EINTR, EINTR, EINTR}, {ENOENT, EACCES, EMFILE, ENOENT, EACCES, EIO}, {EIO, EIO, EIO, EIO, EIO, EIO}, {EAGAIN, EAGAIN, EAGAIN, EAGAIN, EAGAIN, EAGAIN}};
      Fault f;
      f.cls = (int)(s.a % FC_NCLASSES);
      f.err = errs[f.cls][(size_t)s.b % 6];
      f.scope = (int)(s.c % 4);
      f.mode = 0;
      if ((f.cls == FC_SEND || f.cls == FC_RECV) && (s.c / 4) % 4 == 1) { f.mode = 1; f.param = 1 + (int)((s.c / 16) % 20); }
      if (f.cls == FC_RECV && (s.c / 4) % 4 == 2) f.mode = 2;
      if (f.cls == FC_WAIT && (s.c / 4) % 2 == 1) f.mode = 2;
      if (s.d > 0) { std::vector<int> os = W.open_sockets(); if (!os.empty()) f.fd = os[(size_t)s.d % os.size()]; }
      W.arm(f);
      break;
    }
    case S_PARTITION: {
      if (W.servers.empty() || !W.faults_enabled) break;
      ServerState &sv = W.servers[(size_t)s.a % W.servers.size()];
      sv.cfg.partitioned = true; sv.cfg.partition_until = W.now_us + (1 + s.b % 20000) * 1000;
      W.bump("net.partition");
      break;
    }
    case S_HEAL:
      for (auto &sv : W.servers) sv.cfg.partitioned = false;
      break;
    case S_CHUNK: {
      if (cfg.knob("reference")) break;
      std::vector<int> os;
      for (int fd : W.open_sockets()) if (W.get(fd)->kind == FD_TCP) os.push_back(fd);
      if (os.empty()) break;
      VFd *v = W.get(os[(size_t)s.a % os.size()]);
      Rng cr((uint64_t)s.b * 77 + 1);
      int n = 1 + (int)cr.below(12);
      for (int i = 0; i < n; i++) { v->recv_chunks.push_back((int)cr.below(5) == 0 ? 0 : 1 + (int)cr.below(s.c % 2 ? 3 : 300)); v->send_windows.push_back((int)cr.below(4) == 0 ? 0 : 1 + (int)cr.below(s.c % 3 ? 40 : 2)); }
      W.bump("tcp_chunk_pattern");
      break;
    }
    case S_SETSRV: set_servers_variant((int)s.a); break;
    case S_REINIT: do_reinit(chan); break;
    case S_SORTLIST: {
      static const char *sl[] = {"10.0.0.0/8", "10.1.0.0/255.255.0.0 10.0.0.0/8", "fd00::/8", "192.0.2.0/24 10.128.0.0/9", "10.0.0.0/9"};
      static const char *canon[] = {"10.0.0.0/8", "10.1.0.0/16,10.0.0.0/8", "fd00::/8", "192.0.2.0/24,10.128.0.0/9", "10.0.0.0/9"};
      if (chans[0].alive) { W.api_seq++; int rc = ares_set_sortlist(chans[0].ch, sl[(size_t)s.a % 5]); note("set_sortlist"); if (rc == ARES_SUCCESS) user_set_later["sortlist"] = canon[(size_t)s.a % 5]; else note("set_sortlist_failed"); }
      break;
    }
    default:
      if (extra_step) extra_step(*this, s);
      break;
  }
  check_invariants(step_name[s.k < S_NKINDS ? s.k : 0]);
  if (after_step) after_step(*this);
}

void Run::drain(int max_steps) {
  // faults stop here: heal everything and let the system finish
  W.faults_enabled = false;
  W.faults.clear();
  for (auto &sv : W.servers) sv.cfg.partitioned = false;
  for (auto &p : W.fds) { p.second.recv_chunks.clear(); p.second.send_windows.clear(); }
  faults_stopped_at = W.now_us;
  int n = 0;
  while (outstanding() > 0 && n < max_steps) {
    Step s; s.k = S_ADV; s.a = 0; s.b = 0;
    exec_step(s);
    n++;
  }
  note("drain_steps", n);
  drained = outstanding() == 0;
}

void Run::destroy_all() {
  for (auto &c : chans) {
    if (!c.alive || !c.ch) continue;
    c.destroying = true;
    W.api_seq++;
    ares_destroy(c.ch);
    c.alive = false; c.ch = nullptr;
  }
  destroyed_all = true;
}

void Run::final_oracles() {
  for (auto &r : reqs) {
    if (!r.accepted) continue;
    if (r.cb_count == 0) violate("C01", "no_callback", "request " + std::to_string(r.token) + " (" + req_kind_name[r.kind] + " " + r.name + ") never completed, even by ares_destroy");
  }
  if (!W.protocol_violations.empty()) violate("C10", "call_on_closed_fd", W.protocol_violations[0]);
  for (auto &p : W.fds) {
    VFd &f = p.second;
    if ((f.kind == FD_UDP || f.kind == FD_TCP) && f.open && destroyed_all) violate("C10", "socket_leaked", "socket " + std::to_string(f.fd) + " still open after ares_destroy");
    if ((f.kind == FD_UDP || f.kind == FD_TCP) && f.close_count > 1) violate("C10", "double_close", "socket " + std::to_string(f.fd) + " closed " + std::to_string(f.close_count) + " times");
    if (f.kind == FD_UDP && cfg.udp_max_queries > 0 && f.server_idx >= 0 && f.n_send_ok > cfg.udp_max_queries)
      violate("C10", "udp_max_queries_exceeded", "udp socket " + std::to_string(f.fd) + " carried " + std::to_string(f.n_send_ok) + " datagrams, limit " + std::to_string(cfg.udp_max_queries));
  }
  // socket-state callback stream: exactly one final (0,0) when something non-zero was announced
  if (destroyed_all && cfg.mode == 0 && !W.fd_reuse)   // notification bookkeeping is by descriptor number
    for (auto &c : chans)
      for (auto &p : c.ever_announced) {
        int z = c.final_zero.count(p.first) ? c.final_zero[p.first] : 0;
        if (z == 0) violate("C10", "no_final_notification", "descriptor " + std::to_string(p.first) + " was announced but never got a final (0,0) notification");
        if (z > 1) violate("C10", "repeated_final_notification", "descriptor " + std::to_string(p.first) + " got " + std::to_string(z) + " final (0,0) notifications");
      }
}

void Run::execute() {
  g_run = this;
  setup_world();
  W.on_tx = [this](Tx &t) { for (auto &f : tx_obs) f(*this, t); };
  for (auto &f : world_ready) f(*this);
  g_alloc.reset(); g_alloc.active = true;
  g_alloc.fail_at = (long)cfg.knob("fail_at", -1);
  ares_library_init_mem(ARES_LIB_INIT_ALL, l_malloc, l_free, l_realloc);
  if (make_channel(0)) {
    check_invariants("init");
    for (auto &s : plan) {
      if (!chans[0].alive) break;
      exec_step(s);
      if (steps_done > 5000) break;
    }
    int budget = 200 + (int)reqs.size() * 64 * (cfg.tries > 0 ? cfg.tries : 3) * (int)(cfg.servers.size() + 1);
    if (budget > 60000) budget = 60000;
    drain(budget);
    if (!drained) {
      std::string who;
      for (auto &r : reqs) if (r.accepted && r.cb_count == 0) { who = std::to_string(r.token) + " (" + req_kind_name[r.kind] + " " + r.name + ")"; break; }
      violate("C06", "no_termination", "request " + who + " still outstanding after faults stopped and " + std::to_string(budget) + " loop turns");
    }
    if (before_destroy) before_destroy(*this);
    destroy_all();
  }
  final_oracles();
  if (at_end) at_end(*this);
  ares_library_cleanup();
  g_alloc.active = false;
  note("alloc_calls", g_alloc.calls);
  if (!g_alloc.live.empty()) {
    note("leaked_allocations", (int64_t)g_alloc.live.size());
    if (cfg.profile == "C14") {
      size_t bytes = 0; long first = -1; size_t fsz = 0; std::string where;
      for (auto &p : g_alloc.live) { bytes += p.second.size; if (first < 0 || p.second.index < first) { first = p.second.index; fsz = p.second.size; where = blk_where(p.second); } }
      violate("C14", "leak", std::to_string(g_alloc.live.size()) + " allocation(s), " + std::to_string(bytes) + " bytes, still live after ares_destroy and ares_library_cleanup" + (cfg.knob("fail_at", -1) > 0 ? " (allocation #" + std::to_string(cfg.knob("fail_at")) + " was failed)" : " (no failure injected)") + "; earliest is allocation #" + std::to_string(first) + " of " + std::to_string(fsz) + " bytes" + (where.empty() ? "" : ", allocated in " + where));
    }
  }
  if (g_alloc.bad_free) { note("bad_frees", g_alloc.bad_free); if (cfg.profile == "C14") violate("C14", "bad_free", std::to_string(g_alloc.bad_free) + " free/realloc call(s) on a pointer the allocator never handed out or already released"); }
  g_run = nullptr;
}


// ---- full (de)serialisation of a run configuration: replay files are self-contained ----
#define CFG_INT_FIELDS(X) \
  X(mode) X(flags) X(tries) X(timeout_ms) X(maxtimeout_ms) X(rotate) X(udp_max_queries) X(ndots) X(set_domains) X(qcache_max_ttl) \
  X(retry_chance) X(retry_delay) X(ednspsz) X(sndbuf) X(rcvbuf) X(loop_style) X(pending_write_cb) X(sockfuncs) X(tfo) X(evsys) \
  X(server_source) X(sock_create_cb) X(sock_config_cb) X(faults) X(allow_cancel_in_cb) X(use_tokens) X(nthreads) X(sched_policy) X(sched_preempt)
#define CFG_STR_FIELDS(X) X(lookups) X(sortlist) X(resolv_conf) X(hosts_file) X(nsswitch) X(hostaliases) X(local_dev)
#define PROF_INT_FIELDS(X) X(max_addrs) X(max_cname_chain) X(soa_pct) X(big_answer_pct) X(foreign_class_pct) X(additional_addr_pct) X(mixed_family_pct)

std::string RunCfg::dump() const {
  JW j;
  j.obj();
  j.kv("profile", profile).kv("seed", seed);
#define X(f) j.kv(#f, (int64_t)f);
  CFG_INT_FIELDS(X)
#undef X
#define X(f) j.kv(#f, f);
  CFG_STR_FIELDS(X)
#undef X
  j.kv("min_delay", min_delay).kv("max_delay", max_delay).kv("t0_us", t0_us).kv("local_ip4", (int64_t)local_ip4).kv("local_ip6", (int64_t)local_ip6);
  j.key("domains").arr(); for (auto &d : domains) j.val(d); j.end_arr();
  j.key("servers").arr();
  for (auto &s : servers) { j.obj().kv("ip", s.ip).kv("udp", (int64_t)s.udp_port).kv("tcp", (int64_t)s.tcp_port).kv("cookie", (int64_t)s.cookie_mode).kv("tcp_refuse", (int64_t)s.tcp_refuse).kv("tcp_blackhole", (int64_t)s.tcp_blackhole).kv("iface", s.iface).end_obj(); }
  j.end_arr();
  j.key("env").obj(); for (auto &e : env) j.kv(e.first.c_str(), e.second); j.end_obj();
  j.key("beh_w").arr(); for (int w : beh_w) j.val((int64_t)w); j.end_arr();
  j.key("zone_w").arr(); for (int w : zone_w) j.val((int64_t)w); j.end_arr();
  j.key("names").arr(); for (auto &n : names) j.val(n); j.end_arr();
  j.key("qtypes").arr(); for (int t : qtypes) j.val((int64_t)t); j.end_arr();
  j.key("prof").obj();
  j.kv("id", prof.id);
#define X(f) j.kv(#f, (int64_t)prof.f);
  PROF_INT_FIELDS(X)
#undef X
  j.key("ttl_choices").arr(); for (auto t : prof.ttl_choices) j.val((int64_t)t); j.end_arr();
  j.end_obj();
  j.key("knobs").obj(); for (auto &e : knobs) j.kv(e.first.c_str(), e.second); j.end_obj();
  j.end_obj();
  return j.s;
}

bool RunCfg::load(const JV &v) {
  if (v.t != JV::OBJ) return false;
  profile = v.gets("profile", profile);
  if (v.get("seed")) seed = (uint64_t)v.geti("seed");
#define X(f) if (v.get(#f)) f = (decltype(f))v.geti(#f);
  CFG_INT_FIELDS(X)
#undef X
#define X(f) if (v.get(#f)) f = v.gets(#f);
  CFG_STR_FIELDS(X)
#undef X
  if (v.get("min_delay")) min_delay = v.geti("min_delay");
  if (v.get("max_delay")) max_delay = v.geti("max_delay");
  if (v.get("t0_us")) t0_us = v.geti("t0_us");
  if (v.get("local_ip4")) local_ip4 = (uint32_t)v.geti("local_ip4");
  if (v.get("local_ip6")) local_ip6 = v.geti("local_ip6") != 0;
  auto strs = [&](const char *k, std::vector<std::string> &out) { const JV *a = v.get(k); if (a && a->t == JV::ARR) { out.clear(); for (auto &e : a->a) out.push_back(e.str); } };
  auto ints = [&](const char *k, std::vector<int> &out) { const JV *a = v.get(k); if (a && a->t == JV::ARR) { out.clear(); for (auto &e : a->a) out.push_back((int)e.i); } };
  strs("domains", domains); strs("names", names); ints("beh_w", beh_w); ints("zone_w", zone_w); ints("qtypes", qtypes);
  if (const JV *sv = v.get("servers")) if (sv->t == JV::ARR) {
    servers.clear();
    for (auto &e : sv->a) { ServerSpec s; s.ip = e.gets("ip"); s.udp_port = (int)e.geti("udp", 53); s.tcp_port = (int)e.geti("tcp", 53); s.cookie_mode = (int)e.geti("cookie"); s.tcp_refuse = e.geti("tcp_refuse") != 0; s.tcp_blackhole = e.geti("tcp_blackhole") != 0; s.iface = e.gets("iface"); servers.push_back(s); }
  }
  if (const JV *e = v.get("env")) if (e->t == JV::OBJ) { env.clear(); for (auto &p : e->o) env[p.first] = p.second.str; }
  if (const JV *p = v.get("prof")) if (p->t == JV::OBJ) {
    prof.id = p->gets("id", prof.id);
#define X(f) if (p->get(#f)) prof.f = (int)p->geti(#f);
    PROF_INT_FIELDS(X)
#undef X
    if (const JV *t = p->get("ttl_choices")) if (t->t == JV::ARR) { prof.ttl_choices.clear(); for (auto &e2 : t->a) prof.ttl_choices.push_back((uint32_t)e2.i); }
  }
  if (const JV *k = v.get("knobs")) if (k->t == JV::OBJ) { knobs.clear(); for (auto &p : k->o) knobs[p.first] = p.second.i; }
  return true;
}
