// Virtual network and DNS servers: transmissions are decoded with the independent
// codec, a behaviour is chosen by keyed hash, responses are built with unique markers.
#include "sim.h"
#include "profile.h"
#include <arpa/inet.h>
#include <errno.h>
#include <stdlib.h>

using namespace dnsref;

static Profile g_default_profile;
extern "C" void __sanitizer_print_stack_trace(void) __attribute__((weak));
static void sim_debug_backtrace() { if (__sanitizer_print_stack_trace) __sanitizer_print_stack_trace(); }

int World::find_server(const Addr &dst, bool tcp) const {
  for (size_t i = 0; i < servers.size(); i++) {
    const ServerCfg &c = servers[i].cfg;
    if (!c.addr.same_ip(dst)) continue;
    if ((tcp ? c.tcp_port : c.addr.port) == dst.port) return (int)i;
  }
  return -1;
}

Resp &World::new_resp() {
  Resp r; r.id = (int)resps.size();
  resps.push_back(r);
  return resps.back();
}
uint32_t World::new_marker(int resp_id) {
  uint32_t m = next_marker++;
  marker_resp[m] = resp_id;
  return m;
}

void World::client_send_dgram(VFd &s, const std::string &data) {
  if (s.server_idx < 0) { bump("dgram_to_nowhere"); return; }
  server_handle(s, false, data, 0);
}

void World::client_send_stream(VFd &s, const std::string &data) {
  if (s.server_idx < 0) return;
  ServerState &sv = servers[s.server_idx];
  size_t base = sv.tcp_stream_len[s.tcp_conn_id];
  s.srv_accum += data;
  // frames
  while (s.srv_accum.size() >= 2) {
    size_t len = ((uint8_t)s.srv_accum[0] << 8) | (uint8_t)s.srv_accum[1];
    if (s.srv_accum.size() < 2 + len) break;
    std::string frame = s.srv_accum.substr(2, len);
    s.srv_accum.erase(0, 2 + len);
    size_t off = base;
    base += 2 + len;
    sv.tcp_stream_len[s.tcp_conn_id] = base;
    int fd = s.fd;
    server_handle(s, true, frame, off);
    VFd *again = get(fd);
    if (!again || !again->open) return;
  }
}

// ---------- zone model ----------
static std::string marker_name_text(uint32_t m) { return "m" + std::to_string(m) + ".mark.test"; }
static std::string marker_a(uint32_t m) {
  std::string a(4, '\0');
  a[0] = 10; a[1] = (char)((m >> 16) & 0xff); a[2] = (char)((m >> 8) & 0xff); a[3] = (char)(m & 0xff);
  return a;
}
static std::string marker_aaaa(uint32_t m) {
  std::string a(16, '\0');
  a[0] = (char)0xfd; a[1] = 0x00; a[2] = 0x5a;
  a[12] = (char)((m >> 24) & 0xff); a[13] = (char)((m >> 16) & 0xff); a[14] = (char)((m >> 8) & 0xff); a[15] = (char)(m & 0xff);
  return a;
}

struct ZoneAns {
  int out = Z_DATA;
  std::vector<RR> an, ns, ar;
};

static uint32_t pick_ttl(const Profile &p, uint64_t h) {
  if (p.ttl_choices.empty()) return 60;
  return p.ttl_choices[h % p.ttl_choices.size()];
}

int World::zone_outcome(const dnsref::Name &name, int qtype) const {
  std::string key = strip_token(name);
  uint64_t h = hash_mix(hash_str(zone_key, key), (uint64_t)qtype);
  Rng zr(h);
  return zr.pick(zone_weights);
}

static void build_zone_answer(World &w, const Profile &p, const Question &q, Resp &r, ZoneAns &z) {
  std::string key = strip_token(q.name);
  uint64_t h = hash_mix(hash_str(w.zone_key, key), q.type);
  Rng zr(h);
  z.out = zr.pick(w.zone_weights);
  Name owner = q.name;
  auto mk = [&](uint16_t type, uint32_t ttl) { RR rr; rr.name = owner; rr.type = type; rr.klass = q.klass; rr.ttl = ttl; return rr; };
  if (z.out == Z_NXDOMAIN || z.out == Z_NODATA) {
    if ((int)zr.below(100) < p.soa_pct) {
      RR soa; soa.type = T_SOA; soa.klass = 1;
      Name zone = q.name; if (zone.size() > 1) zone.erase(zone.begin());
      if (token_of_name(q.name) >= 0 && zone.size() > 1) zone.erase(zone.begin());
      soa.name = zone;
      uint32_t m = w.new_marker(r.id); r.markers.push_back(m);
      soa.target = name_from_text(marker_name_text(m));
      soa.rname = name_from_text("hostmaster.mark.test");
      soa.ttl = pick_ttl(p, zr.next());
      soa.soa[0] = 2024; soa.soa[1] = 7200; soa.soa[2] = 900; soa.soa[3] = 1209600; soa.soa[4] = pick_ttl(p, zr.next());
      z.ns.push_back(soa);
    }
    return;
  }
  // data (possibly behind a CNAME chain)
  bool addr_q = q.type == T_A || q.type == T_AAAA;
  int chain = (addr_q || q.type == T_ANY || q.type == T_TXT || q.type == T_MX) && p.max_cname_chain > 0 ? (int)zr.below((uint64_t)p.max_cname_chain + 1) : 0;
  if (z.out == Z_CNAME_ONLY) chain = chain ? chain : 1;
  if (zr.below(3) != 0 && z.out != Z_CNAME_ONLY) chain = 0;
  for (int i = 0; i < chain; i++) {
    uint32_t m = w.new_marker(r.id); r.markers.push_back(m);
    RR c = mk(T_CNAME, pick_ttl(p, zr.next()));
    c.target = name_from_text("c" + std::to_string(i) + "." + marker_name_text(m));
    z.an.push_back(c);
    owner = c.target;
  }
  if (z.out == Z_CNAME_ONLY) return;
  switch (q.type) {
    case T_A: case T_AAAA: {
      int n = 1 + (int)zr.below((uint64_t)(p.max_addrs > 0 ? p.max_addrs : 1));
      if ((int)zr.below(100) < p.big_answer_pct) n = 40 + (int)zr.below(60);
      for (int i = 0; i < n; i++) {
        uint32_t m = w.new_marker(r.id); r.markers.push_back(m);
        RR a = mk(q.type, pick_ttl(p, zr.next()));
        a.addr = q.type == T_A ? marker_a(m) : marker_aaaa(m);
        z.an.push_back(a);
        r.addrs.emplace_back(a.addr, a.ttl);
      }
      if ((int)zr.below(100) < p.mixed_family_pct) {
        uint32_t m = w.new_marker(r.id); r.markers.push_back(m);
        RR a = mk(q.type == T_A ? T_AAAA : T_A, pick_ttl(p, zr.next()));
        a.addr = q.type == T_A ? marker_aaaa(m) : marker_a(m);
        z.an.push_back(a);
        r.addrs.emplace_back(a.addr, a.ttl);
      }
      if ((int)zr.below(100) < p.foreign_class_pct) {
        uint32_t m = w.new_marker(r.id); r.markers.push_back(m);
        RR a = mk(q.type, pick_ttl(p, zr.next()));
        a.klass = 3;  // CHAOS
        a.addr = q.type == T_A ? marker_a(m) : marker_aaaa(m);
        z.an.push_back(a);
      }
      if ((int)zr.below(100) < p.additional_addr_pct) {
        uint32_t m = w.new_marker(r.id); r.markers.push_back(m);
        RR a; a.name = name_from_text("extra." + marker_name_text(m)); a.type = q.type; a.klass = 1; a.ttl = 77;
        a.addr = q.type == T_A ? marker_a(m) : marker_aaaa(m);
        z.ar.push_back(a);
      }
      break;
    }
    case T_PTR: case T_NS: {
      int n = 1 + (int)zr.below(3);
      for (int i = 0; i < n; i++) {
        uint32_t m = w.new_marker(r.id); r.markers.push_back(m);
        RR a = mk(q.type, pick_ttl(p, zr.next()));
        a.target = name_from_text("p" + std::to_string(i) + "." + marker_name_text(m));
        z.an.push_back(a);
      }
      break;
    }
    case T_CNAME: {
      uint32_t m = w.new_marker(r.id); r.markers.push_back(m);
      RR a = mk(T_CNAME, pick_ttl(p, zr.next()));
      a.target = name_from_text(marker_name_text(m));
      z.an.push_back(a);
      break;
    }
    case T_MX: {
      int n = 1 + (int)zr.below(3);
      for (int i = 0; i < n; i++) {
        uint32_t m = w.new_marker(r.id); r.markers.push_back(m);
        RR a = mk(T_MX, pick_ttl(p, zr.next()));
        a.pref = (uint16_t)zr.below(100);
        a.target = name_from_text("mx." + marker_name_text(m));
        z.an.push_back(a);
      }
      break;
    }
    case T_SRV: {
      uint32_t m = w.new_marker(r.id); r.markers.push_back(m);
      RR a = mk(T_SRV, pick_ttl(p, zr.next()));
      a.pref = (uint16_t)zr.below(10); a.weight = (uint16_t)zr.below(100); a.port = (uint16_t)(1 + zr.below(65000));
      a.target = name_from_text("srv." + marker_name_text(m));
      z.an.push_back(a);
      break;
    }
    case T_SOA: {
      uint32_t m = w.new_marker(r.id); r.markers.push_back(m);
      RR a = mk(T_SOA, pick_ttl(p, zr.next()));
      a.target = name_from_text(marker_name_text(m)); a.rname = name_from_text("hostmaster.mark.test");
      a.soa[0] = (uint32_t)zr.next(); a.soa[1] = 3600; a.soa[2] = 600; a.soa[3] = 86400; a.soa[4] = pick_ttl(p, zr.next());
      z.an.push_back(a);
      break;
    }
    case T_NAPTR: {
      uint32_t m = w.new_marker(r.id); r.markers.push_back(m);
      RR a = mk(T_NAPTR, pick_ttl(p, zr.next()));
      a.pref = (uint16_t)zr.below(100); a.weight = (uint16_t)zr.below(100);
      a.strs = {"S", "SIP+D2U", ""};
      a.target = name_from_text("naptr." + marker_name_text(m));
      z.an.push_back(a);
      break;
    }
    case T_CAA: {
      uint32_t m = w.new_marker(r.id); r.markers.push_back(m);
      RR a = mk(T_CAA, pick_ttl(p, zr.next()));
      a.caa_flags = 0; a.strs = {"issue", "m" + std::to_string(m) + ".example"};
      z.an.push_back(a);
      break;
    }
    case T_TXT:
    default: {
      int n = 1 + (int)zr.below(2);
      for (int i = 0; i < n; i++) {
        uint32_t m = w.new_marker(r.id); r.markers.push_back(m);
        RR a = mk(q.type == T_TXT || q.type == T_ANY ? T_TXT : q.type, pick_ttl(p, zr.next()));
        if (a.type == T_TXT) {
          a.strs.push_back("m" + std::to_string(m));
          if (zr.below(3) == 0) a.strs.push_back(std::string(1 + zr.below(200), 'x'));
        } else a.raw = "m" + std::to_string(m);
        z.an.push_back(a);
      }
      break;
    }
  }
}

// cookie handling for a response; returns false if the response must not be sent at all
static void apply_cookie(World &w, ServerState &sv, const Tx &tx, Msg &resp, RR *opt, int &beh, Resp &r) {
  if (!opt || tx.tcp) return;
  const RR *qopt = tx.msg.opt();
  if (!qopt) return;
  std::string qc;
  for (auto &o : qopt->opts) if (o.code == 10) qc = o.data;
  if (qc.size() < 8) return;
  std::string cc = qc.substr(0, 8), sc = qc.substr(8);
  int mode = sv.cfg.cookie_mode;
  auto expected = [&]() {
    uint64_t h = hash_mix(hash_bytes(w.beh_key ^ 0xC00C1E, cc.data(), cc.size()), (uint64_t)tx.server * 131 + (uint64_t)sv.cookie_epoch);
    std::string s((const char *)&h, 8);
    if (mode == CK_CHANGING) { uint64_t h2 = hash_mix(h, 99); s.append((const char *)&h2, 8); }
    return s;
  };
  switch (mode) {
    case CK_NONE: return;
    case CK_REGRESS:
      if (sv.regress_active) return;
      /* fallthrough */
    case CK_GOOD: case CK_CHANGING: case CK_BADCOOKIE_ONCE: case CK_BADCOOKIE_ALWAYS: {
      if (mode == CK_CHANGING && sv.queries % 3 == 0) sv.cookie_epoch++;
      std::string exp = expected();
      bool bad = (mode == CK_BADCOOKIE_ALWAYS) || (mode == CK_BADCOOKIE_ONCE && sc != exp);
      if (bad && beh == B_ANSWER) {
        beh = B_BADCOOKIE;
        sv.badcookie_sent++;
      }
      opt->opts.push_back(EdnsOpt{10, cc + exp});
      sv.server_cookie = exp;
      r.has_cookie = true; r.has_server_cookie = true;
      return;
    }
    case CK_WRONG_CLIENT: {
      std::string bad = cc; bad[0] ^= 0x55;
      opt->opts.push_back(EdnsOpt{10, bad + expected()});
      r.has_cookie = true; r.defect |= DEF_BAD_COOKIE;
      return;
    }
    case CK_SHORT:
      opt->opts.push_back(EdnsOpt{10, cc.substr(0, 4)});
      r.has_cookie = true; r.defect |= DEF_BAD_COOKIE;
      return;
    case CK_LONG:
      opt->opts.push_back(EdnsOpt{10, cc + std::string(33, 'L')});
      r.has_cookie = true; r.defect |= DEF_BAD_COOKIE;
      return;
    case CK_BADCOOKIE_NOCOOKIE:
      if (beh == B_ANSWER) beh = B_BADCOOKIE;
      return;
  }
  (void)resp;
}

void World::server_handle(VFd &s, bool tcp, const std::string &wire, size_t stream_off) {
  const Profile &p = prof ? *prof : g_default_profile;
  ServerState &sv = servers[s.server_idx];
  Tx tx;
  tx.id = (int)txs.size(); tx.t = now_us; tx.fd = s.fd; tx.server = s.server_idx; tx.tcp = tcp; tx.wire = wire;
  tx.api_seq = api_seq; tx.cb_depth = cb_depth; tx.stream_off = stream_off; tx.seq = seq; tx.src_ip = s.local.ipstr();
  tx.deferred = !tcp && next_tx_deferred;
  tx.order_unknown = !tcp && next_tx_order_unknown;
  tx.lseq = tx.deferred ? next_tx_lseq : seq;
  tx.decode_err = decode(wire, tx.msg, &tx.trailing);
  if (tx.decode_err.find("name longer than 255") != std::string::npos) {
    // a name of 256/257 octets: malformed by RFC 1035 but self-consistent; decode leniently and report it separately
    dnsref::g_max_name_octets = 300;
    tx.decode_err = decode(wire, tx.msg, &tx.trailing);
    dnsref::g_max_name_octets = 255;
    bump("tx_name_over_255_octets");
  }
  if (tx.decode_err.empty() && !tx.msg.qd.empty()) {
    tx.token = token_of_name(tx.msg.qd[0].name);
    tx.qname_lc = name_lower(name_to_text(tx.msg.qd[0].name));
    std::string k = tx.qname_lc + "|" + std::to_string(tx.msg.qd[0].type);
    tx.attempt = sv.attempts[k]++;
  }
  sv.queries++;
  bump(tcp ? "tx_tcp" : "tx_udp");
  mix(hash_bytes(0x7158, wire.data(), wire.size()) ^ ((uint64_t)tx.server << 56));
  mix_shape(0x7158 ^ ((uint64_t)tcp << 4) ^ ((uint64_t)(tx.cb_depth > 0) << 5));

  // behaviour
  int beh = B_SILENT;
  bool parted = sv.cfg.partitioned && (sv.cfg.partition_until < 0 || now_us < sv.cfg.partition_until);
  if (!tx.decode_err.empty() || tx.msg.qd.empty() || (tx.msg.flags & F_QR)) beh = B_SILENT;
  else if (parted) beh = B_SILENT;
  else {
    int ov = beh_override ? beh_override(tx) : -1;
    if (ov >= 0) beh = ov;
    else {
      uint64_t h = hash_mix(hash_str(beh_key, tx.qname_lc), ((uint64_t)tx.server << 40) ^ ((uint64_t)tx.msg.qd[0].type << 20) ^ (uint64_t)tx.attempt ^ ((uint64_t)tcp << 60));
      Rng br(h);
      beh = br.pick(beh_weights);
    }
    if (tcp && beh == B_TC) beh = B_ANSWER;
    if (!tcp && (beh == B_TCP_RESET || beh == B_TCP_CLOSE)) beh = B_ANSWER;
  }
  tx.behaviour = beh;
  txs.push_back(tx);
  Tx &T = txs.back();
  if (const char *bt = getenv("SIM_BT_TX")) if (T.qname_lc.find(bt) != std::string::npos) { fprintf(stderr, "=== TX #%d %s srv=%d t=%lld\n", T.id, T.qname_lc.c_str(), T.server, (long long)now_us); sim_debug_backtrace(); }
  if (on_tx) on_tx(T);
  bump(std::string("beh.") + beh_name[beh]);
  if (beh == B_SILENT) return;
  if (beh == B_TCP_RESET) { add_flight(FL_TCP_RESET, now_us + min_delay_us, s.fd, "", Addr(), -1); return; }
  if (beh == B_TCP_CLOSE) { add_flight(FL_TCP_CLOSE, now_us + min_delay_us, s.fd, "", Addr(), -1); return; }

  // build response
  int rid = new_resp().id;
  {
    Resp &r = resps[rid];
    r.tx = T.id; r.server = T.server; r.tcp = tcp; r.fd = s.fd; r.sent_at = now_us;
    r.src = tcp ? Addr() : sv.cfg.addr;
  }
  const Question &q = T.msg.qd[0];
  Msg m;
  m.id = T.msg.id;
  m.flags = (uint16_t)(F_QR | (T.msg.flags & F_RD) | F_RA | (T.msg.flags & 0x7800) | (T.msg.flags & F_CD));
  m.qd = T.msg.qd;
  const RR *qopt = T.msg.opt();
  bool with_opt = qopt != nullptr;
  int rcode = 0;
  ZoneAns z;
  switch (beh) {
    case B_SERVFAIL: rcode = 2; break;
    case B_REFUSED: rcode = 5; break;
    case B_NOTIMP: rcode = 4; break;
    case B_FORMERR_NOOPT: if (qopt) { rcode = 1; with_opt = false; } else { beh = B_ANSWER; } break;
    case B_FORMERR_OPT: rcode = 1; break;
    default: break;
  }
  if (beh == B_ANSWER || beh == B_LATE || beh == B_DUP || beh == B_TC || beh == B_WRONGID || beh == B_BADCOOKIE) {
    build_zone_answer(*this, p, q, resps[rid], z);
    if (z.out == Z_NXDOMAIN) rcode = 3;
    m.an = z.an; m.ns = z.ns; m.ar = z.ar;
  }
  RR optrr;
  if (with_opt) {
    optrr.type = T_OPT; optrr.klass = 1232; optrr.ttl = 0;
    int b2 = beh;
    apply_cookie(*this, sv, T, m, &optrr, b2, resps[rid]);
    if (b2 == B_BADCOOKIE && beh != B_BADCOOKIE) { beh = B_BADCOOKIE; }
    if (beh == B_BADCOOKIE) {
      // rcode 23 = BADCOOKIE: low 4 bits 7, extended 1
      m.an.clear(); m.ns.clear(); m.ar.clear();
      rcode = 23;
      resps[rid].markers.clear(); resps[rid].addrs.clear();
    }
    optrr.ttl = (uint32_t)((rcode >> 4) & 0xff) << 24;
  } else if (beh == B_BADCOOKIE) { beh = B_ANSWER; }
  m.flags = (uint16_t)((m.flags & ~0xf) | (rcode & 0xf));
  if (with_opt) m.ar.push_back(optrr);
  if (beh == B_TC) { m.flags |= F_TC; bool keep_ns = tc_keeps_negative && m.an.empty(); m.an.clear(); if (!keep_ns) m.ns.clear(); std::vector<RR> keep; for (auto &r : m.ar) if (r.type == T_OPT) keep.push_back(r); m.ar = keep; resps[rid].markers.clear(); resps[rid].addrs.clear(); }
  if (beh == B_WRONGID) { m.id = (uint16_t)(m.id + 1); resps[rid].defect |= DEF_WRONG_ID; }

  EncodeOpts eo;
  // layout choice keyed on the question, not on the response id, so it does not depend on the order responses are created in
  eo.compress = (hash_mix(hash_str(beh_key ^ 0xC0, T.qname_lc), ((uint64_t)q.type << 8) ^ (uint64_t)T.attempt ^ ((uint64_t)tcp << 40)) & 3) != 0;
  if (!tcp) {
    size_t lim = 512;
    if (qopt) { lim = qopt->klass; if (lim < 512) lim = 512; if (lim > 4096) lim = 4096; }
    eo.truncate_to = lim;
  }
  std::string out = encode(m, eo);
  if (beh == B_GARBAGE) {
    Rng g(hash_mix(beh_key ^ 0x6A6A, (uint64_t)rid));
    int kind = (int)g.below(4);
    if (kind == 0) { out.resize(g.below(out.size() + 1)); }
    else if (kind == 1) { for (int i = 0; i < 4 && !out.empty(); i++) out[g.below(out.size())] ^= (char)(1 + g.below(255)); }
    else if (kind == 2) { out.assign(g.below(64), '\0'); for (auto &c : out) c = (char)g.below(256); }
    else { out += std::string(1 + g.below(20), (char)0xC0); }
    resps[rid].defect |= DEF_GARBAGE;
    resps[rid].markers.clear();   // content may or may not survive; not attributable
  }
  Resp &r = resps[rid];
  r.wire = out;
  Msg back;
  if (decode(out, back).empty()) { r.msg = back; r.tc = (back.flags & F_TC) != 0; r.rcode = back.rcode(); if (r.tc && !(m.flags & F_TC)) { r.markers.clear(); r.addrs.clear(); bump("auto_tc"); } }
  else { r.msg = m; r.rcode = rcode; }
  uint32_t mt = 0xffffffffu;
  for (auto *sec : {&r.msg.an, &r.msg.ns, &r.msg.ar}) for (auto &rr : *sec) if (rr.type != T_OPT && rr.type != T_SOA && rr.ttl < mt) mt = rr.ttl;
  r.min_ttl = mt;
  if (on_resp_built) on_resp_built(r);

  int64_t d = min_delay_us + (int64_t)(hash_mix(beh_key ^ 0xDE1A, (uint64_t)rid) % (uint64_t)(max_delay_us - min_delay_us + 1));
  if (beh == B_LATE) d += 1500000 + (int64_t)(hash_mix(beh_key ^ 0x1A7E, (uint64_t)rid) % 6000000);
  r.arrive_at = now_us + d;
  T.resp_ids.push_back(rid);
  if (tcp) {
    std::string framed; framed += (char)(out.size() >> 8); framed += (char)(out.size() & 0xff); framed += out;
    add_flight(FL_TCP_BYTES, r.arrive_at, s.fd, framed, Addr(), rid);
  } else {
    add_flight(FL_DGRAM, r.arrive_at, s.fd, out, sv.cfg.addr, rid);
    if (beh == B_DUP) { add_flight(FL_DGRAM, r.arrive_at + 1 + (int64_t)(hash_mix(beh_key, (uint64_t)rid * 3) % 50000), s.fd, out, sv.cfg.addr, rid); bump("dup_sent"); }
  }
}


// ---------- off-path attacker ----------
// variants: 0 wrong id, 1 wrong socket (right content), 2 wrong source address, 3 wrong qname, 4 wrong qtype, 5 wrong qclass,
// 6 wrong question count, 7 letter case changed, 8 cookie missing, 9 wrong client cookie, 10 short cookie, 11 valid copy (control)
int World::forge_response(const Tx &T, int variant, int fd, int64_t at, uint64_t salt) {
  const Profile &p = prof ? *prof : g_default_profile;
  if (!T.decode_err.empty() || T.msg.qd.empty() || T.tcp) return -1;
  VFd *s = get(fd);
  if (!s || !s->open || s->kind != FD_UDP) return -1;
  int rid = new_resp().id;
  Resp &r0 = resps[(size_t)rid];
  r0.tx = T.id; r0.server = T.server; r0.tcp = false; r0.forged = true; r0.fd = fd; r0.sent_at = now_us; r0.forge_variant = variant;
  Msg m;
  m.id = T.msg.id;
  m.flags = (uint16_t)(F_QR | (T.msg.flags & F_RD) | F_RA);
  m.qd = T.msg.qd;
  // always a positive answer with fresh markers so that acceptance is visible
  {
    std::vector<int> saved = zone_weights;
    zone_weights.assign(Z_NZ, 0); zone_weights[Z_DATA] = 1;
    ZoneAns z;
    Question q = T.msg.qd[0];
    if (q.type != T_A && q.type != T_AAAA && q.type != T_TXT && q.type != T_MX && q.type != T_PTR && q.type != T_NS) q.type = T_TXT, m.qd[0].type = T.msg.qd[0].type;
    build_zone_answer(*this, p, T.msg.qd[0], resps[(size_t)rid], z);
    zone_weights = saved;
    m.an = z.an; m.ns = z.ns; m.ar = z.ar;
  }
  Resp &r = resps[(size_t)rid];
  const RR *qopt = T.msg.opt();
  std::string qcookie;
  if (qopt) for (auto &o : qopt->opts) if (o.code == 10) qcookie = o.data;
  ServerState &sv = servers[(size_t)T.server];
  RR optrr; bool with_opt = qopt != nullptr;
  optrr.type = T_OPT; optrr.klass = 1232;
  // by default echo a fully valid cookie when the query carried one
  if (with_opt && qcookie.size() >= 8) {
    std::string sc = sv.server_cookie.empty() ? std::string("\x01\x02\x03\x04\x05\x06\x07\x08", 8) : sv.server_cookie;
    optrr.opts.push_back(EdnsOpt{10, qcookie.substr(0, 8) + sc});
  }
  Addr src = sv.cfg.addr;
  bool flags0x20 = stat.count("cfg.dns0x20") && stat["cfg.dns0x20"];
  switch (variant) {
    case 0: m.id = (uint16_t)(m.id + 1 + salt % 65534); r.defect |= DEF_WRONG_ID; break;
    case 1: r.defect |= DEF_WRONG_SOCKET; break;
    case 2: { src.a[src.family == AF_INET ? 3 : 15] ^= (uint8_t)(1 + salt % 200); r.defect |= DEF_WRONG_SRC; break; }
    case 3: { if (!m.qd[0].name.empty()) { std::string &l = m.qd[0].name[m.qd[0].name.size() > 1 ? 1 : 0]; char &ch = l[salt % l.size()]; ch = tolower((unsigned char)ch) == 'x' ? 'y' : 'x'; } for (auto &rr : m.an) rr.name = m.qd[0].name; r.defect |= DEF_WRONG_QNAME; break; }
    case 4: m.qd[0].type = m.qd[0].type == T_A ? T_AAAA : T_A; r.defect |= DEF_WRONG_QTYPE; break;
    case 5: m.qd[0].klass = 3; r.defect |= DEF_WRONG_QCLASS; break;
    case 6: if (salt & 1) m.qd.clear(); else m.qd.push_back(m.qd[0]); r.defect |= DEF_WRONG_QCOUNT; break;
    case 7: {
      bool changed = false;
      for (auto &l : m.qd[0].name) for (auto &ch : l) if (isalpha((unsigned char)ch) && !changed) { ch = (char)(ch ^ 0x20); changed = true; }
      if (changed && flags0x20) r.defect |= DEF_WRONG_CASE;   // only a defect when 0x20 is in use (UDP)
      break;
    }
    case 8: {
      optrr.opts.clear();
      // a missing cookie is a defect once the server proved support, until the 120 s regression period (counted from the first
      // cookie-less response) is over; stay well inside it
      std::string k1 = "cookie_proven." + std::to_string(T.server), k2 = "cookie_missing_first." + std::to_string(T.server);
      if (qcookie.size() >= 8 && stat.count(k1)) {
        if (!stat.count(k2)) stat[k2] = at;
        if (at - stat[k2] < 100000000LL) r.defect |= DEF_NO_COOKIE;
      }
      break;
    }
    case 9: if (!optrr.opts.empty()) { optrr.opts[0].data[salt % 8] ^= 0x5a; r.defect |= DEF_BAD_COOKIE; } break;
    case 10: if (!optrr.opts.empty()) { optrr.opts[0].data.resize(3 + salt % 5); r.defect |= DEF_BAD_COOKIE; } break;
    default: break;
  }
  if (with_opt) m.ar.push_back(optrr);
  EncodeOpts eo; eo.compress = (salt & 4) != 0;
  r.wire = encode(m, eo);
  r.msg = m; r.rcode = 0; r.src = src; r.arrive_at = at;
  uint32_t mt = 0xffffffffu;
  for (auto *sec : {&r.msg.an, &r.msg.ns, &r.msg.ar}) for (auto &rr : *sec) if (rr.type != T_OPT && rr.type != T_SOA && rr.ttl < mt) mt = rr.ttl;
  r.min_ttl = mt;
  add_flight(FL_DGRAM, at, fd, r.wire, src, rid);
  bump("forged_packets");
  bump("forged.variant" + std::to_string(variant));
  return rid;
}
