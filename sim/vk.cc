// Virtual kernel: descriptors, sockets, pipes, epoll/poll/select, inotify, files,
// environment, clock, randomness. The sim_* functions replace the libc entry points
// inside the c-ares objects (objcopy --redefine-syms).
#include "sim.h"
#include <algorithm>
#include "simsched.h"
#include <errno.h>
#include <fcntl.h>
#include <stdarg.h>
#include <stdlib.h>
#include <unistd.h>
#include <poll.h>
#include <time.h>
#include <sys/epoll.h>
#include <sys/inotify.h>
#include <sys/select.h>
#include <sys/stat.h>
#include <sys/time.h>
#include <arpa/inet.h>
#include <netinet/tcp.h>
#include <net/if.h>
#include <ifaddrs.h>
#include <assert.h>

World W;

const char *fault_class_name[FC_NCLASSES] = {"socket", "setsockopt", "bind", "connect", "getsockname", "send", "recv", "wait", "fopen", "fread", "thread"};
const char *beh_name[B_NBEH] = {"answer", "servfail", "refused", "notimp", "formerr_noopt", "formerr_opt", "tc", "silent", "late", "dup", "garbage", "badcookie", "tcp_reset", "tcp_close", "wrongid"};

// ---------------- addresses ----------------
std::string Addr::ipstr() const {
  char b[64] = "?";
  if (family == AF_INET || family == AF_INET6) inet_ntop(family, a, b, sizeof b);
  return b;
}
std::string Addr::str() const { return ipstr() + "#" + std::to_string(port); }

Addr addr_from_sockaddr(const struct sockaddr *sa, socklen_t len) {
  Addr r;
  if (!sa) return r;
  if (sa->sa_family == AF_INET && len >= (socklen_t)sizeof(sockaddr_in)) {
    sockaddr_in s; memcpy(&s, sa, sizeof s);
    r.family = AF_INET; memcpy(r.a, &s.sin_addr, 4); r.port = ntohs(s.sin_port);
  } else if (sa->sa_family == AF_INET6 && len >= (socklen_t)sizeof(sockaddr_in6)) {
    sockaddr_in6 s; memcpy(&s, sa, sizeof s);
    r.family = AF_INET6; memcpy(r.a, &s.sin6_addr, 16); r.port = ntohs(s.sin6_port); r.scope = s.sin6_scope_id;
  }
  return r;
}
socklen_t addr_to_sockaddr(const Addr &a, struct sockaddr *sa, socklen_t cap) {
  if (a.family == AF_INET) {
    sockaddr_in s; memset(&s, 0, sizeof s);
    s.sin_family = AF_INET; memcpy(&s.sin_addr, a.a, 4); s.sin_port = htons(a.port);
    memcpy(sa, &s, cap < sizeof s ? cap : sizeof s);
    return sizeof s;
  }
  if (a.family == AF_INET6) {
    sockaddr_in6 s; memset(&s, 0, sizeof s);
    s.sin6_family = AF_INET6; memcpy(&s.sin6_addr, a.a, 16); s.sin6_port = htons(a.port); s.sin6_scope_id = a.scope;
    memcpy(sa, &s, cap < sizeof s ? cap : sizeof s);
    return sizeof s;
  }
  return 0;
}
Addr addr_parse(const std::string &ip, uint16_t port) {
  Addr r; r.port = port;
  if (inet_pton(AF_INET, ip.c_str(), r.a) == 1) r.family = AF_INET;
  else if (inet_pton(AF_INET6, ip.c_str(), r.a) == 1) r.family = AF_INET6;
  return r;
}

int token_of_name(const dnsref::Name &n) {
  if (n.empty()) return -1;
  const std::string &l = n[0];
  // style 1: the whole first label is tNNN; style 2: the first label ends in -tNNN
  size_t start = 0;
  if (l.size() >= 2 && (l[0] == 't' || l[0] == 'T') && isdigit((unsigned char)l[1])) start = 1;
  else {
    size_t p = l.rfind('-');
    if (p == std::string::npos || p + 2 >= l.size() + 0 || (l[p + 1] != 't' && l[p + 1] != 'T')) return -1;
    start = p + 2;
    if (start >= l.size()) return -1;
  }
  int v = 0;
  for (size_t i = start; i < l.size(); i++) { if (l[i] < '0' || l[i] > '9') return -1; v = v * 10 + (l[i] - '0'); if (v > 100000000) return -1; }
  return v;
}
std::string strip_token(const dnsref::Name &n) {
  dnsref::Name m = n;
  if (token_of_name(n) >= 0) {
    const std::string &l = n[0];
    if ((l[0] == 't' || l[0] == 'T') && l.size() >= 2 && isdigit((unsigned char)l[1]) && l.find('-') == std::string::npos) m.erase(m.begin());
    else m[0] = l.substr(0, l.rfind('-'));
  }
  return dnsref::name_lower(dnsref::name_to_text(m));
}

// ---------------- world ----------------
void World::reset(uint64_t seed) {
  *this = World();
  run_seed = seed;
  uint64_t x = seed ^ 0xA5A5A5A55A5A5A5AULL;
  beh_key = splitmix64(x); zone_key = splitmix64(x); rng_key = splitmix64(x);
  client_ip4 = addr_parse("192.0.2.77", 0);
  client_ip6 = addr_parse("2001:db8::77", 0);
  beh_weights.assign(B_NBEH, 0); beh_weights[B_ANSWER] = 100;
  zone_weights.assign(Z_NZ, 0); zone_weights[Z_DATA] = 100;
}

VFd *World::get(int fd) {
  auto it = fds.find(fd);
  return it == fds.end() ? nullptr : &it->second;
}
VFd &World::alloc(FdKind k) {
  int fd = -1;
  if (fd_reuse) {
    // lowest free number, as a POSIX kernel does; the closed object moves to the graveyard
    for (int n = 300; n < next_fd; n++) { auto it = fds.find(n); if (it != fds.end() && !it->second.open) { graveyard.push_back(it->second); fds.erase(it); fd = n; bump("fd_number_reused"); break; } }
  }
  if (fd < 0) fd = next_fd++;
  VFd &f = fds[fd];
  f = VFd();
  f.fd = fd; f.gen = ++gen_ctr; f.kind = k; f.open = true; f.ever_open = true; f.opened_at = now_us;
  return f;
}
void World::log(int call, int fd, long res, int err, long a, long b) {
  seq++;
  uint64_t h = ((uint64_t)call << 56) ^ ((uint64_t)(uint32_t)fd << 32) ^ (uint64_t)(uint32_t)res ^ ((uint64_t)(uint32_t)err << 20) ^ ((uint64_t)a << 8) ^ (uint64_t)b ^ ((uint64_t)now_us << 1) ^ ((uint64_t)sim_tid() << 50);
  mix(h);
  mix_shape(((uint64_t)call << 8) ^ (uint64_t)(err & 0xff) ^ (res < 0 ? 0x8000 : 0));
  if (log_calls && calls.size() < 200000) calls.push_back(CallRec{seq, sim_tid(), call, fd, res, err, a, b, now_us});
}
int World::arm(const Fault &f0) {
  Fault f = f0; f.id = ++fault_ids;
  faults.push_back(f);
  fault_armed[f.cls]++;
  return f.id;
}
bool World::take_fault(int cls, int fd, Fault &out) {
  if (!faults_enabled) return false;
  for (size_t i = 0; i < faults.size(); i++) {
    Fault &f = faults[i];
    if (f.cls != cls) continue;
    if (f.fd >= 0 && f.fd != fd) continue;
    if (f.scope == 1 && cb_depth == 0) continue;
    if (f.scope == 2 || f.scope == 3) {
      VFd *v = get(fd);
      if (!v) continue;
      if (f.scope == 2 && v->kind != FD_TCP) continue;
      if (f.scope == 3 && v->kind != FD_UDP) continue;
    }
    out = f;
    fault_fired[cls]++;
    bump(std::string("fault_fired.") + fault_class_name[cls]);
    if (cb_depth > 0) bump(std::string("fault_fired_in_callback.") + fault_class_name[cls]);
    if (--f.remaining <= 0) faults.erase(faults.begin() + (long)i);
    return true;
  }
  return false;
}

int World::add_flight(int kind, int64_t at, int fd, const std::string &data, const Addr &src, int resp_id) {
  Flight f;
  f.id = (int)flights.size(); f.kind = kind; f.at = at; f.fd = fd; f.data = data; f.src = src; f.resp_id = resp_id;
  { VFd *v = get(fd); f.gen = v ? v->gen : 0; }
  flights.push_back(f);
  return f.id;
}
int64_t World::next_flight_time() const {
  int64_t best = -1;
  for (auto &f : flights) if (!f.done && (best < 0 || f.at < best)) best = f.at;
  return best;
}
void World::deliver_due() {
  // deliver in (time, id) order; delivering may not create new flights that are due (delays > 0)
  while (true) {
    int bi = -1;
    for (size_t i = 0; i < flights.size(); i++) {
      Flight &f = flights[i];
      if (f.done || f.at > now_us) continue;
      if (bi < 0 || f.at < flights[bi].at) bi = (int)i;
    }
    if (bi < 0) break;
    deliver_flight(flights[bi]);
  }
}
void World::deliver_flight(Flight &f) {
  f.done = true;
  VFd *s = get(f.fd);
  mix(((uint64_t)f.kind << 40) ^ (uint64_t)f.id ^ ((uint64_t)now_us << 8));
  if (f.kind == FL_INOTIFY) { if (s && s->open) s->inbuf += f.data; return; }
  if (!s || !s->open || (f.gen && s->gen != f.gen)) { bump("flight_to_closed_socket"); return; }   // a packet is addressed to a socket (port), not to a descriptor number
  switch (f.kind) {
    case FL_DGRAM: {
      Dgram d; d.data = f.data; d.src = f.src; d.resp_id = f.resp_id;
      s->inq.push_back(d);
      if (f.resp_id >= 0) { resps[f.resp_id].delivered_to_socket = true; resps[f.resp_id].delivered_at = now_us; if (on_arrival) on_arrival(resps[f.resp_id], *s); }
      break;
    }
    case FL_TCP_BYTES:
      if (s->tstate == TS_ESTABLISHED && !s->peer_closed) {
        s->instream += f.data;
        s->in_added += f.data.size();
        if (f.resp_id >= 0) { resps[f.resp_id].delivered_to_socket = true; resps[f.resp_id].delivered_at = now_us; s->in_marks.emplace_back(s->in_added, f.resp_id); if (on_arrival) on_arrival(resps[f.resp_id], *s); }
      }
      break;
    case FL_TCP_CONNECTED:
      if (s->tstate == TS_CONNECTING) {
        s->tstate = TS_ESTABLISHED;
        if (!s->srv_accum.empty()) { std::string d; d.swap(s->srv_accum); client_send_stream(*s, d); }
      }
      break;
    case FL_TCP_REFUSED:
      if (s->tstate == TS_CONNECTING) { s->tstate = TS_FAILED; s->so_error = ECONNREFUSED; }
      break;
    case FL_TCP_CLOSE:
      if (s->tstate == TS_ESTABLISHED) s->peer_closed = true;
      break;
    case FL_TCP_RESET:
      if (s->tstate == TS_ESTABLISHED || s->tstate == TS_CONNECTING) { s->tstate = TS_FAILED; s->so_error = ECONNRESET; s->instream.clear(); }
      break;
  }
}

bool World::readable(const VFd &f) const {
  if (!f.open) return false;
  switch (f.kind) {
    case FD_UDP: return !f.inq.empty() || f.so_error != 0;
    case FD_TCP: return !f.instream.empty() || f.peer_closed || f.tstate == TS_FAILED;
    case FD_PIPE_R: return !f.pipebuf.empty();
    case FD_INOTIFY: return !f.inbuf.empty();
    default: return false;
  }
}
bool World::writable(const VFd &f) const {
  if (!f.open) return false;
  switch (f.kind) {
    case FD_UDP: return true;
    case FD_TCP:
      if (f.tstate == TS_FAILED) return true;
      // an established socket always polls writable; a generated zero window then makes the next send() return EAGAIN
      // (spurious writability is legal), after which the window entry is consumed
      return f.tstate == TS_ESTABLISHED;
    case FD_PIPE_W: return true;
    default: return false;
  }
}
bool World::errored(const VFd &f) const { return f.open && f.kind == FD_TCP && f.tstate == TS_FAILED; }
std::vector<int> World::open_sockets() const {
  std::vector<int> v;
  for (auto &p : fds) if (p.second.open && (p.second.kind == FD_UDP || p.second.kind == FD_TCP)) v.push_back(p.first);
  return v;
}
void World::inotify_event(const std::string &name) {
  for (auto &p : fds) {
    if (p.second.kind != FD_INOTIFY || !p.second.open) continue;
    size_t nl = (name.size() + 1 + 15) & ~(size_t)15;
    std::string ev(sizeof(struct inotify_event) + nl, '\0');
    struct inotify_event ie; memset(&ie, 0, sizeof ie);
    ie.wd = 1; ie.mask = IN_MODIFY; ie.len = (uint32_t)nl;
    memcpy(&ev[0], &ie, sizeof ie);
    memcpy(&ev[sizeof ie], name.data(), name.size());
    add_flight(FL_INOTIFY, now_us + 1, p.first, ev, Addr(), -1);
  }
}
void World::set_file(const std::string &path, const std::string &content) { files[path] = content; file_mtime[path] = (now_us + realtime_off_us) / 1000000; }
void World::remove_file(const std::string &path) { files.erase(path); file_mtime.erase(path); }

// ---------------- helpers ----------------
static VFd *live(int fd, int call) {
  VFd *f = W.get(fd);
  if (!f || !f->open) {
    char b[160];
    snprintf(b, sizeof b, "call %d on %s descriptor %d at t=%lld", call, f ? "closed" : "never-opened", fd, (long long)W.now_us);
    W.protocol_violations.push_back(b);
    if (f) f->n_calls_after_close++;
    W.log(call, fd, -1, EBADF);
    errno = EBADF;
    return nullptr;
  }
  return f;
}
static int fail(int call, int fd, int err, long a = 0) { W.log(call, fd, -1, err, a); errno = err; return -1; }

extern "C" {

// ---------------- clock & randomness ----------------
int sim_clock_gettime(clockid_t id, struct timespec *ts) {
  int64_t t = W.now_us;
  if (id == CLOCK_REALTIME) t += W.realtime_off_us;
  ts->tv_sec = (time_t)(t / 1000000);
  ts->tv_nsec = (long)((t % 1000000) * 1000);
  return 0;
}
int sim_gettimeofday(struct timeval *tv, void *tz) {
  (void)tz;
  int64_t t = W.now_us + W.realtime_off_us;
  tv->tv_sec = (time_t)(t / 1000000); tv->tv_usec = (suseconds_t)(t % 1000000);
  return 0;
}
time_t sim_time(time_t *out) {
  time_t t = (time_t)((W.now_us + W.realtime_off_us) / 1000000);
  if (out) *out = t;
  return t;
}
void sim_arc4random_buf(void *buf, size_t n) {
  unsigned char *p = (unsigned char *)buf;
  for (size_t i = 0; i < n; i += 8) {
    uint64_t v = hash_mix(W.rng_key, W.rng_ctr++);
    size_t k = n - i < 8 ? n - i : 8;
    memcpy(p + i, &v, k);
  }
  W.mix(0x5252000000000000ULL ^ n);
}
unsigned int cares_verif_sim_htable_seed(void) { return (unsigned int)hash_mix(W.rng_key ^ 0x48544142ULL, W.htable_seed_ctr++); }

// ---------------- sockets ----------------
int sim_socket(int domain, int type, int proto) {
  (void)proto;
  Fault ft;
  if (W.take_fault(FC_SOCKET, -1, ft)) return fail(C_SOCKET, -1, ft.err, type);
  int base = type & 0xf;
  VFd &f = W.alloc(base == SOCK_STREAM ? FD_TCP : FD_UDP);
  f.family = domain;
  if (type & SOCK_NONBLOCK) f.nonblock = true;
  if (base == SOCK_STREAM && W.stat.count("cfg.default_chunking") && W.stat["cfg.default_chunking"]) { f.default_chunking = true; f.chunk_seed = f.fd; }
  W.log(C_SOCKET, f.fd, f.fd, 0, base, domain);
  W.bump(base == SOCK_STREAM ? "sock_tcp_opened" : "sock_udp_opened");
  return f.fd;
}
int sim_close(int fd) {
  VFd *f = W.get(fd);
  if (!f || !f->open) {
    char b[128];
    snprintf(b, sizeof b, "close on %s descriptor %d at t=%lld", f ? "already-closed" : "never-opened", fd, (long long)W.now_us);
    W.protocol_violations.push_back(b);
    if (f) f->close_count++;
    W.log(C_CLOSE, fd, -1, EBADF);
    errno = EBADF;
    return -1;
  }
  f->open = false; f->closed_at = W.now_us; f->close_count++;
  if (f->kind == FD_PIPE_R || f->kind == FD_PIPE_W) { /* peer stays */ }
  // remove from all epoll sets (kernel semantics)
  for (auto &p : W.fds) if (p.second.kind == FD_EPOLL) p.second.interest.erase(fd);
  W.log(C_CLOSE, fd, 0, 0);
  return 0;
}
int sim_fcntl(int fd, int cmd, ...) {
  va_list ap; va_start(ap, cmd);
  long arg = va_arg(ap, long);
  va_end(ap);
  VFd *f = live(fd, C_FCNTL);
  if (!f) return -1;
  int r = 0;
  if (cmd == F_GETFL) r = O_RDWR | (f->nonblock ? O_NONBLOCK : 0);
  else if (cmd == F_SETFL) f->nonblock = (arg & O_NONBLOCK) != 0;
  W.log(C_FCNTL, fd, r, 0, cmd);
  return r;
}
int sim_setsockopt(int fd, int level, int opt, const void *val, socklen_t len) {
  (void)val; (void)len;
  VFd *f = live(fd, C_SETSOCKOPT);
  if (!f) return -1;
  Fault ft;
  bool is_tfo = (level == IPPROTO_TCP && opt == TCP_FASTOPEN_CONNECT);
  if (!is_tfo && W.take_fault(FC_SETSOCKOPT, fd, ft)) return fail(C_SETSOCKOPT, fd, ft.err, opt);
  if (is_tfo) {
    bool allow = W.stat.count("cfg.tfo") ? W.stat["cfg.tfo"] != 0 : false;
    if (!allow) return fail(C_SETSOCKOPT, fd, ENOPROTOOPT, opt);
    f->tfo = true;
  }
  W.log(C_SETSOCKOPT, fd, 0, 0, level, opt);
  return 0;
}
int sim_bind(int fd, const struct sockaddr *sa, socklen_t len) {
  VFd *f = live(fd, C_BIND);
  if (!f) return -1;
  Fault ft;
  if (W.take_fault(FC_BIND, fd, ft)) return fail(C_BIND, fd, ft.err);
  f->local = addr_from_sockaddr(sa, len);
  f->bound = true;
  W.log(C_BIND, fd, 0, 0);
  return 0;
}
static void assign_local(VFd &f) {
  Addr l = f.family == AF_INET6 ? W.client_ip6 : W.client_ip4;
  if (f.bound && f.local.family) { uint16_t p = f.local.port; l = f.local; l.port = p; }
  if (!l.port) l.port = (uint16_t)(20000 + (f.fd % 40000));
  f.local = l;
}
int sim_connect(int fd, const struct sockaddr *sa, socklen_t len) {
  VFd *f = live(fd, C_CONNECT);
  if (!f) return -1;
  Fault ft;
  if (W.take_fault(FC_CONNECT, fd, ft)) return fail(C_CONNECT, fd, ft.err);
  f->peer = addr_from_sockaddr(sa, len);
  if (f->peer.family != f->family) return fail(C_CONNECT, fd, EAFNOSUPPORT);
  assign_local(*f);
  if (f->kind == FD_UDP) {
    f->connected = true;
    f->server_idx = W.find_server(f->peer, false);
    W.log(C_CONNECT, fd, 0, 0, f->server_idx);
    return 0;
  }
  // TCP
  f->server_idx = W.find_server(f->peer, true);
  f->tcp_conn_id = ++W.tcp_conn_ids;
  f->tstate = TS_CONNECTING;
  bool refuse = f->server_idx < 0 || W.servers[f->server_idx].cfg.tcp_refuse;
  bool hole = f->server_idx >= 0 && (W.servers[f->server_idx].cfg.tcp_blackhole || W.servers[f->server_idx].cfg.partitioned);
  int64_t d = W.min_delay_us + (int64_t)(hash_mix(W.beh_key, (uint64_t)f->tcp_conn_id * 77 + 5) % (uint64_t)(W.max_delay_us - W.min_delay_us + 1));
  if (!hole) W.add_flight(refuse ? FL_TCP_REFUSED : FL_TCP_CONNECTED, W.now_us + d, fd, "", Addr(), -1);
  else W.bump("tcp_blackholed");
  if (f->tfo) { W.log(C_CONNECT, fd, 0, 0, f->server_idx, 1); return 0; }
  W.log(C_CONNECT, fd, -1, EINPROGRESS, f->server_idx);
  errno = EINPROGRESS;
  return -1;
}
int sim_getsockname(int fd, struct sockaddr *sa, socklen_t *len) {
  VFd *f = live(fd, C_GETSOCKNAME);
  if (!f) return -1;
  Fault ft;
  if (W.take_fault(FC_GETSOCKNAME, fd, ft)) return fail(C_GETSOCKNAME, fd, ft.err);
  if (!f->local.family) {
    // unconnected: report the wildcard address of the socket's family
    Addr z; z.family = f->family;
    *len = addr_to_sockaddr(z, sa, *len);
  } else *len = addr_to_sockaddr(f->local, sa, *len);
  W.log(C_GETSOCKNAME, fd, 0, 0);
  return 0;
}

static ssize_t do_send(int fd, const void *buf, size_t n, int call) {
  VFd *f = live(fd, call);
  if (!f) return -1;
  f->n_send_calls++;
  Fault ft;
  size_t limit = n;
  if (W.take_fault(FC_SEND, fd, ft)) {
    if (ft.mode == 0) {
      if (ft.err == EAGAIN && f->kind == FD_TCP) f->write_blocked = true;
      if (ft.err == EAGAIN && f->kind == FD_UDP) f->eagain_payloads.push_back({hash_bytes(0xEA6A, buf, n), W.seq + 1});
      return fail(call, fd, ft.err, (long)n);
    }
    if (ft.mode == 1 && f->kind == FD_TCP && ft.param > 0 && (size_t)ft.param < n) limit = (size_t)ft.param;
  }
  if (f->kind == FD_UDP) {
    if (!f->connected) return fail(call, fd, EDESTADDRREQ, (long)n);
    if (f->so_error) { int e = f->so_error; f->so_error = 0; return fail(call, fd, e, (long)n); }
    f->n_send_ok++;
    W.log(call, fd, (long)n, 0, (long)n);
    if (!f->eagain_payloads.empty()) {
      uint64_t h = hash_bytes(0xEA6A, buf, n);
      auto it = std::find_if(f->eagain_payloads.begin(), f->eagain_payloads.end(), [h](const std::pair<uint64_t, uint32_t> &p) { return p.first == h; });
      if (it != f->eagain_payloads.end()) { W.next_tx_lseq = it->second; f->eagain_payloads.erase(it); W.next_tx_deferred = true; f->flush_api_seq = W.api_seq; W.bump("udp_datagram_sent_after_eagain"); }
    }
    if (!W.next_tx_deferred && f->flush_api_seq == W.api_seq) { W.next_tx_order_unknown = true; W.bump("udp_datagram_maybe_queued_behind_deferred"); }
    W.client_send_dgram(*f, std::string((const char *)buf, n));
    W.next_tx_deferred = false; W.next_tx_order_unknown = false;
    return (ssize_t)n;
  }
  // TCP
  if (f->tstate == TS_FAILED) { int e = f->so_error ? f->so_error : EPIPE; return fail(call, fd, e, (long)n); }
  if (f->tstate == TS_CREATED) return fail(call, fd, ENOTCONN, (long)n);
  if (f->tstate == TS_CONNECTING) {
    if (f->tfo && f->srv_accum.empty() && n > 0) {
      f->srv_accum.assign((const char *)buf, n);   // SYN+data; handed to the server when the handshake completes
      f->n_send_ok++;
      W.log(call, fd, (long)n, 0, (long)n, 1);
      W.bump("tfo_syn_data");
      return (ssize_t)n;
    }
    f->write_blocked = true;
    return fail(call, fd, EAGAIN, (long)n);
  }
  if (!f->send_windows.empty()) {
    int w = f->send_windows.front(); f->send_windows.pop_front();
    if (w <= 0) { f->write_blocked = true; W.bump("send_eagain_window"); return fail(call, fd, EAGAIN, (long)n); }
    if ((size_t)w < limit) limit = (size_t)w;
  } else if (f->default_chunking && n > 1) {
    uint64_t h = hash_mix(W.beh_key ^ 0x5EED, ((uint64_t)f->fd << 20) ^ (uint64_t)f->n_send_ok ^ ((uint64_t)f->chunk_seed << 40));
    int m = (int)(h % 7);
    if (m == 0) { f->write_blocked = true; f->n_send_ok++; W.bump("send_eagain_window"); return fail(call, fd, EAGAIN, (long)n); }
    if (m <= 3) { size_t w = 1 + (size_t)((h >> 8) % n); if (w < limit) limit = w; }
  }
  if (limit < n) { f->write_blocked = true; W.bump("send_short"); } else f->write_blocked = false;
  f->n_send_ok++;
  W.log(call, fd, (long)limit, 0, (long)n);
  W.client_send_stream(*f, std::string((const char *)buf, limit));
  return (ssize_t)limit;
}
ssize_t sim_send(int fd, const void *buf, size_t n, int flags) { (void)flags; return do_send(fd, buf, n, C_SEND); }
ssize_t sim_sendto(int fd, const void *buf, size_t n, int flags, const struct sockaddr *sa, socklen_t sl) {
  (void)flags; (void)sa; (void)sl;
  return do_send(fd, buf, n, C_SENDTO);
}
ssize_t sim_recvfrom(int fd, void *buf, size_t n, int flags, struct sockaddr *sa, socklen_t *sl) {
  (void)flags;
  VFd *f = live(fd, C_RECVFROM);
  if (!f) return -1;
  Fault ft;
  size_t limit = n;
  if (W.take_fault(FC_RECV, fd, ft)) {
    if (ft.mode == 0) return fail(C_RECVFROM, fd, ft.err);
    if (ft.mode == 2) {
      if (f->kind == FD_UDP && sa && sl) *sl = addr_to_sockaddr(f->peer, sa, *sl);
      W.log(C_RECVFROM, fd, 0, 0);
      return 0;
    }
    if (ft.mode == 1 && ft.param > 0 && (size_t)ft.param < limit) limit = (size_t)ft.param;
  }
  if (f->kind == FD_UDP) {
    if (f->so_error) { int e = f->so_error; f->so_error = 0; return fail(C_RECVFROM, fd, e); }
    if (f->inq.empty()) return fail(C_RECVFROM, fd, EAGAIN);
    Dgram d = f->inq.front(); f->inq.pop_front();
    size_t k = d.data.size() < n ? d.data.size() : n;
    memcpy(buf, d.data.data(), k);
    if (sa && sl) *sl = addr_to_sockaddr(d.src, sa, *sl);
    W.log(C_RECVFROM, fd, (long)k, 0, d.resp_id);
    if (d.resp_id >= 0) { W.resps[(size_t)d.resp_id].read_times.push_back(W.now_us); W.resps[(size_t)d.resp_id].read_seqs.push_back(W.seq); W.resps[(size_t)d.resp_id].read_api.push_back(W.api_seq);
      const Resp &rr0 = W.resps[(size_t)d.resp_id];
      (void)rr0;
      if (W.on_read) W.on_read(W.resps[(size_t)d.resp_id], *f); }
    return (ssize_t)k;
  }
  // TCP
  if (f->tstate == TS_FAILED) { int e = f->so_error ? f->so_error : ECONNRESET; return fail(C_RECVFROM, fd, e); }
  if (f->tstate != TS_ESTABLISHED) return fail(C_RECVFROM, fd, f->tstate == TS_CONNECTING ? EAGAIN : ENOTCONN);
  if (f->instream.empty()) {
    if (f->peer_closed) { W.log(C_RECVFROM, fd, 0, 0); return 0; }
    return fail(C_RECVFROM, fd, EAGAIN);
  }
  if (!f->recv_chunks.empty()) {
    int c = f->recv_chunks.front(); f->recv_chunks.pop_front();
    if (c <= 0) { W.bump("recv_eagain_injected"); return fail(C_RECVFROM, fd, EAGAIN); }
    if ((size_t)c < limit) limit = (size_t)c;
  } else if (f->default_chunking) {
    uint64_t h = hash_mix(W.beh_key ^ 0xC4C4, ((uint64_t)f->fd << 24) ^ (uint64_t)f->instream.size() ^ ((uint64_t)f->chunk_seed << 44) ^ (uint64_t)W.seq);
    int m = (int)(h % 8);
    if (m <= 4) { size_t c = m == 0 ? 1 : 1 + (size_t)((h >> 8) % (m <= 2 ? 8 : 600)); if (c < limit) limit = c; }
  }
  size_t k = f->instream.size() < limit ? f->instream.size() : limit;
  memcpy(buf, f->instream.data(), k);
  f->instream.erase(0, k);
  f->in_read += k;
  while (!f->in_marks.empty() && f->in_marks.front().first <= f->in_read) { Resp &rr_ = W.resps[(size_t)f->in_marks.front().second]; rr_.read_times.push_back(W.now_us); rr_.read_seqs.push_back(W.seq); rr_.read_api.push_back(W.api_seq); f->in_marks.pop_front(); }
  if (k < n && !f->instream.empty()) W.bump("recv_short");
  W.log(C_RECVFROM, fd, (long)k, 0);
  return (ssize_t)k;
}

// ---------------- pipes / read / write ----------------
int sim_pipe2(int fds[2], int flags) {
  VFd &r = W.alloc(FD_PIPE_R);
  int rfd = r.fd;
  VFd &w = W.alloc(FD_PIPE_W);
  W.fds[rfd].pipe_peer = w.fd; w.pipe_peer = rfd;
  W.fds[rfd].nonblock = w.nonblock = (flags & O_NONBLOCK) != 0;
  fds[0] = rfd; fds[1] = w.fd;
  W.log(C_PIPE2, rfd, 0, 0, w.fd);
  return 0;
}
static int pred_readable(void *arg) { VFd *f = W.get((int)(intptr_t)arg); return !f || !f->open || W.readable(*f); }
ssize_t sim_read(int fd, void *buf, size_t n) {
  VFd *f = live(fd, C_READ);
  if (!f) return -1;
  if (f->kind != FD_PIPE_R && f->kind != FD_INOTIFY) return fail(C_READ, fd, EINVAL);
  std::string &src = f->kind == FD_PIPE_R ? f->pipebuf : f->inbuf;
  if (src.empty()) {
    if (f->nonblock || !sched_active()) return fail(C_READ, fd, EAGAIN);
    sched_wait(pred_readable, (void *)(intptr_t)fd, -1, WHY_IO);
    f = W.get(fd);
    if (!f || !f->open) return fail(C_READ, fd, EBADF);
  }
  std::string &s2 = f->kind == FD_PIPE_R ? f->pipebuf : f->inbuf;
  size_t k = s2.size() < n ? s2.size() : n;
  if (f->kind == FD_INOTIFY) {
    // never split an event
    size_t off = 0;
    while (off + sizeof(struct inotify_event) <= s2.size()) {
      struct inotify_event ie; memcpy(&ie, s2.data() + off, sizeof ie);
      size_t el = sizeof ie + ie.len;
      if (off + el > n) break;
      off += el;
    }
    if (off == 0) return fail(C_READ, fd, EINVAL);
    k = off;
  }
  memcpy(buf, s2.data(), k);
  s2.erase(0, k);
  W.log(C_READ, fd, (long)k, 0);
  return (ssize_t)k;
}
ssize_t sim_write(int fd, const void *buf, size_t n) {
  VFd *f = live(fd, C_WRITE);
  if (!f) return -1;
  if (f->kind != FD_PIPE_W) return fail(C_WRITE, fd, EINVAL);
  VFd *r = W.get(f->pipe_peer);
  if (!r || !r->open) return fail(C_WRITE, fd, EPIPE);
  if (r->pipebuf.size() + n > 65536) return fail(C_WRITE, fd, EAGAIN);
  r->pipebuf.append((const char *)buf, n);
  W.log(C_WRITE, fd, (long)n, 0);
  if (sched_active()) sched_point(WHY_IO);
  return (ssize_t)n;
}

// ---------------- epoll / poll / select ----------------
int sim_epoll_create1(int flags) {
  (void)flags;
  VFd &e = W.alloc(FD_EPOLL);
  W.log(C_EPOLL_CREATE, e.fd, e.fd, 0);
  return e.fd;
}
int sim_epoll_ctl(int epfd, int op, int fd, struct epoll_event *ev) {
  VFd *e = live(epfd, C_EPOLL_CTL);
  if (!e) return -1;
  VFd *t = W.get(fd);
  if (!t || !t->open) {
    // removing the registration of a descriptor that was already closed is a no-op in the kernel (close removed it; EBADF):
    // it is neither I/O, an option nor a close on the socket, so it is counted but not held against the call protocol
    if (op == EPOLL_CTL_DEL && t) { W.bump("epoll_del_after_close"); return fail(C_EPOLL_CTL, fd, EBADF, op); }
    char b[128]; snprintf(b, sizeof b, "epoll_ctl op %d on %s descriptor %d", op, t ? "closed" : "never-opened", fd);
    W.protocol_violations.push_back(b);
    return fail(C_EPOLL_CTL, fd, EBADF, op);
  }
  if (op == EPOLL_CTL_ADD) {
    if (e->interest.count(fd)) return fail(C_EPOLL_CTL, fd, EEXIST, op);
    e->interest[fd] = ev->events;
  } else if (op == EPOLL_CTL_MOD) {
    if (!e->interest.count(fd)) return fail(C_EPOLL_CTL, fd, ENOENT, op);
    e->interest[fd] = ev->events;
  } else if (op == EPOLL_CTL_DEL) {
    if (!e->interest.count(fd)) return fail(C_EPOLL_CTL, fd, ENOENT, op);
    e->interest.erase(fd);
  }
  W.log(C_EPOLL_CTL, fd, 0, 0, op, ev ? (long)ev->events : 0);
  return 0;
}
static uint32_t ep_ready(const VFd &t, uint32_t want) {
  uint32_t r = 0;
  if ((want & EPOLLIN) && W.readable(t)) r |= EPOLLIN;
  if ((want & EPOLLOUT) && W.writable(t)) r |= EPOLLOUT;
  if (W.errored(t)) r |= EPOLLERR | EPOLLHUP;
  if (t.kind == FD_TCP && t.peer_closed && (want & EPOLLRDHUP)) r |= EPOLLRDHUP;
  return r;
}
static int pred_epoll(void *arg) {
  VFd *e = W.get((int)(intptr_t)arg);
  if (!e || !e->open) return 1;
  for (auto &p : e->interest) { VFd *t = W.get(p.first); if (t && t->open && ep_ready(*t, p.second)) return 1; }
  return 0;
}
int sim_epoll_wait(int epfd, struct epoll_event *evs, int maxev, int timeout) {
  VFd *e = live(epfd, C_EPOLL_WAIT);
  if (!e) return -1;
  Fault ft;
  if (W.take_fault(FC_WAIT, -1, ft)) { if (ft.mode == 0) return fail(C_EPOLL_WAIT, epfd, EINTR); W.log(C_EPOLL_WAIT, epfd, 0, 0, timeout); return 0; }
  if (sched_active() && timeout != 0) {
    W.bump(timeout < 0 ? "wait_forever" : "wait_timed");
    sched_wait(pred_epoll, (void *)(intptr_t)epfd, timeout < 0 ? -1 : W.now_us + (int64_t)timeout * 1000, WHY_WAITCALL);
    e = W.get(epfd);
    if (!e || !e->open) return fail(C_EPOLL_WAIT, epfd, EBADF);
  }
  int n = 0;
  for (auto &p : e->interest) {
    if (n >= maxev) break;
    VFd *t = W.get(p.first);
    if (!t || !t->open) continue;
    uint32_t r = ep_ready(*t, p.second);
    if (!r) continue;
    memset(&evs[n], 0, sizeof evs[n]);
    evs[n].events = r; evs[n].data.fd = p.first;
    n++;
  }
  W.log(C_EPOLL_WAIT, epfd, n, 0, timeout);
  return n;
}
struct PollArg { struct pollfd *p; nfds_t n; };
static int poll_scan(struct pollfd *p, nfds_t n, bool fill) {
  int cnt = 0;
  for (nfds_t i = 0; i < n; i++) {
    short r = 0;
    VFd *t = W.get(p[i].fd);
    if (p[i].fd < 0) { if (fill) p[i].revents = 0; continue; }
    if (!t || !t->open) r = POLLNVAL;
    else {
      if ((p[i].events & POLLIN) && W.readable(*t)) r |= POLLIN;
      if ((p[i].events & POLLOUT) && W.writable(*t)) r |= POLLOUT;
      if (W.errored(*t)) r |= POLLERR | POLLHUP;
    }
    if (fill) p[i].revents = r;
    if (r) cnt++;
  }
  return cnt;
}
static int pred_poll(void *arg) { PollArg *a = (PollArg *)arg; return poll_scan(a->p, a->n, false) > 0; }
int sim_poll(struct pollfd *p, nfds_t n, int timeout) {
  Fault ft;
  if (W.take_fault(FC_WAIT, -1, ft)) { if (ft.mode == 0) return fail(C_POLL, -1, EINTR); for (nfds_t i = 0; i < n; i++) p[i].revents = 0; W.log(C_POLL, -1, 0, 0, timeout); return 0; }
  for (nfds_t i = 0; i < n; i++) {
    VFd *t = W.get(p[i].fd);
    if (p[i].fd >= 0 && (!t || !t->open)) {
      // with the event thread, another thread may close a socket between the moment the event thread built its wait set and
      // the wait call itself; naming it in a wait call is not I/O on it (POLLNVAL / EBADF) - counted, not a protocol breach
      if (t && sched_active()) { W.bump("wait_call_names_closed_fd"); continue; }
      char b[128]; snprintf(b, sizeof b, "poll on %s descriptor %d", t ? "closed" : "never-opened", p[i].fd);
      W.protocol_violations.push_back(b);
    }
  }
  if (sched_active() && timeout != 0 && poll_scan(p, n, false) == 0) {
    PollArg a{p, n};
    W.bump(timeout < 0 ? "wait_forever" : "wait_timed");
    sched_wait(pred_poll, &a, timeout < 0 ? -1 : W.now_us + (int64_t)timeout * 1000, WHY_WAITCALL);
  }
  int c = poll_scan(p, n, true);
  W.log(C_POLL, -1, c, 0, timeout, (long)n);
  return c;
}
struct SelArg { int nfds; fd_set *r, *w, *x; };
static int sel_scan(int nfds, fd_set *r, fd_set *w, fd_set *x, fd_set *ro, fd_set *wo, fd_set *xo) {
  int cnt = 0;
  for (int fd = 0; fd < nfds && fd < FD_SETSIZE; fd++) {
    bool wr = r && FD_ISSET(fd, r), ww = w && FD_ISSET(fd, w), wx = x && FD_ISSET(fd, x);
    if (!wr && !ww && !wx) continue;
    VFd *t = W.get(fd);
    if (!t || !t->open) continue;
    if (wr && (W.readable(*t) || W.errored(*t))) { if (ro) FD_SET(fd, ro); cnt++; }
    if (ww && W.writable(*t)) { if (wo) FD_SET(fd, wo); cnt++; }
    if (wx && W.errored(*t)) { if (xo) FD_SET(fd, xo); cnt++; }
  }
  return cnt;
}
static int pred_select(void *arg) { SelArg *a = (SelArg *)arg; return sel_scan(a->nfds, a->r, a->w, a->x, nullptr, nullptr, nullptr) > 0; }
int sim_select(int nfds, fd_set *r, fd_set *w, fd_set *x, struct timeval *tv) {
  Fault ft;
  if (W.take_fault(FC_WAIT, -1, ft)) {
    if (ft.mode == 0) return fail(C_SELECT, -1, EINTR);
    if (r) FD_ZERO(r); if (w) FD_ZERO(w); if (x) FD_ZERO(x);
    W.log(C_SELECT, -1, 0, 0); return 0;
  }
  for (int fd = 0; fd < nfds && fd < FD_SETSIZE; fd++) {
    if ((r && FD_ISSET(fd, r)) || (w && FD_ISSET(fd, w)) || (x && FD_ISSET(fd, x))) {
      VFd *t = W.get(fd);
      if (!t || !t->open) {
        if (t && sched_active()) { W.bump("wait_call_names_closed_fd"); return fail(C_SELECT, fd, EBADF); }
        char b[128]; snprintf(b, sizeof b, "select on %s descriptor %d", t ? "closed" : "never-opened", fd);
        W.protocol_violations.push_back(b);
        return fail(C_SELECT, fd, EBADF);
      }
    }
  }
  int64_t to = tv ? (int64_t)tv->tv_sec * 1000000 + tv->tv_usec : -1;
  if (sched_active() && to != 0 && sel_scan(nfds, r, w, x, nullptr, nullptr, nullptr) == 0) {
    SelArg a{nfds, r, w, x};
    W.bump(to < 0 ? "wait_forever" : "wait_timed");
    sched_wait(pred_select, &a, to < 0 ? -1 : W.now_us + to, WHY_WAITCALL);
  }
  fd_set ro, wo, xo; FD_ZERO(&ro); FD_ZERO(&wo); FD_ZERO(&xo);
  int c = sel_scan(nfds, r, w, x, &ro, &wo, &xo);
  if (r) *r = ro; if (w) *w = wo; if (x) *x = xo;
  W.log(C_SELECT, -1, c, 0, (long)to);
  return c;
}

// ---------------- inotify ----------------
int sim_inotify_init1(int flags) {
  VFd &f = W.alloc(FD_INOTIFY);
  f.nonblock = (flags & IN_NONBLOCK) != 0;
  W.log(C_INOTIFY_INIT, f.fd, f.fd, 0);
  return f.fd;
}
int sim_inotify_add_watch(int fd, const char *path, uint32_t mask) {
  (void)path; (void)mask;
  VFd *f = live(fd, C_INOTIFY_ADD);
  if (!f) return -1;
  W.log(C_INOTIFY_ADD, fd, 1, 0);
  return 1;
}

// ---------------- files ----------------
struct VFile { std::string data; size_t pos; int magic; };
FILE *sim_fopen(const char *path, const char *mode) {
  (void)mode;
  Fault ft;
  if (W.take_fault(FC_FOPEN, -1, ft)) { W.log(C_FOPEN, -1, -1, ft.err); errno = ft.err; return nullptr; }
  auto it = W.files.find(path);
  if (it == W.files.end()) { W.log(C_FOPEN, -1, -1, ENOENT, (long)hash_str(0, path) & 0xffff); errno = ENOENT; return nullptr; }
  VFile *v = new VFile{it->second, 0, 0x5646494C};
  W.log(C_FOPEN, -1, 0, 0, (long)hash_str(0, path) & 0xffff);
  W.bump("file_opened");
  if (W.file_io_yields && sched_active()) sched_point(WHY_IO);
  return (FILE *)v;
}
size_t sim_fread(void *buf, size_t sz, size_t n, FILE *fp) {
  VFile *v = (VFile *)fp;
  size_t want = sz * n, have = v->data.size() - v->pos;
  Fault ft;
  if (W.take_fault(FC_FREAD, -1, ft)) { if (have > 0) have = have / 2; }
  size_t k = want < have ? want : have;
  if (sz) k -= k % sz;
  memcpy(buf, v->data.data() + v->pos, k);
  v->pos += k;
  W.log(C_FREAD, -1, (long)k, 0);
  return sz ? k / sz : 0;
}
int sim_fseek(FILE *fp, long off, int whence) {
  VFile *v = (VFile *)fp;
  if (whence == SEEK_END) v->pos = v->data.size(); else if (whence == SEEK_SET) v->pos = (size_t)off; else v->pos += (size_t)off;
  return 0;
}
long sim_ftell(FILE *fp) { return (long)((VFile *)fp)->pos; }
int sim_fclose(FILE *fp) { delete (VFile *)fp; W.log(C_FCLOSE, -1, 0, 0); return 0; }
int sim_setvbuf(FILE *fp, char *b, int m, size_t n) { (void)fp; (void)b; (void)m; (void)n; return 0; }
int sim_stat(const char *path, struct stat *st) {
  auto it = W.files.find(path);
  if (it == W.files.end()) { errno = ENOENT; W.log(C_STAT, -1, -1, ENOENT); return -1; }
  memset(st, 0, sizeof *st);
  st->st_mode = S_IFREG | 0644; st->st_size = (off_t)it->second.size();
  st->st_mtime = (time_t)W.file_mtime[path];
  W.log(C_STAT, -1, 0, 0);
  return 0;
}
char *sim_getenv(const char *name) {
  auto it = W.env.find(name);
  if (it == W.env.end()) return nullptr;
  return (char *)it->second.c_str();
}
int sim_gethostname(char *buf, size_t n) {
  snprintf(buf, n, "%s", W.hostname.c_str());
  return 0;
}

// ---------------- interfaces ----------------
struct IfNode { struct ifaddrs ifa; struct sockaddr_storage addr, mask; char name[16]; };
int sim_getifaddrs(struct ifaddrs **out) {
  struct Spec { const char *name; const char *ip; int plen; unsigned flags; } specs[] = {
    {"lo", "127.0.0.1", 8, IFF_UP | IFF_LOOPBACK}, {"lo", "::1", 128, IFF_UP | IFF_LOOPBACK},
    {"eth0", "192.0.2.77", 24, IFF_UP}, {"eth0", "2001:db8::77", 64, IFF_UP}, {"eth0", "fe80::77", 64, IFF_UP}};
  IfNode *head = nullptr, *prev = nullptr;
  for (auto &s : specs) {
    IfNode *n = (IfNode *)calloc(1, sizeof(IfNode));
    snprintf(n->name, sizeof n->name, "%s", s.name);
    Addr a = addr_parse(s.ip, 0);
    if (a.family == AF_INET6 && a.a[0] == 0xfe) a.scope = 2;
    addr_to_sockaddr(a, (struct sockaddr *)&n->addr, sizeof n->addr);
    Addr m; m.family = a.family;
    for (int i = 0; i < s.plen; i++) m.a[i / 8] |= (uint8_t)(0x80 >> (i % 8));
    addr_to_sockaddr(m, (struct sockaddr *)&n->mask, sizeof n->mask);
    n->ifa.ifa_name = n->name; n->ifa.ifa_flags = s.flags;
    n->ifa.ifa_addr = (struct sockaddr *)&n->addr; n->ifa.ifa_netmask = (struct sockaddr *)&n->mask;
    if (prev) prev->ifa.ifa_next = &n->ifa; else head = n;
    prev = n;
  }
  *out = &head->ifa;
  return 0;
}
void sim_freeifaddrs(struct ifaddrs *p) {
  while (p) { struct ifaddrs *n = p->ifa_next; free((IfNode *)p); p = n; }
}
unsigned int sim_if_nametoindex(const char *name) {
  if (!strcmp(name, "lo")) return 1;
  if (!strcmp(name, "eth0")) return 2;
  if (!strcmp(name, "eth1")) return 3;
  errno = ENODEV; return 0;
}
char *sim_if_indextoname(unsigned int idx, char *buf) {
  const char *n = idx == 1 ? "lo" : idx == 2 ? "eth0" : idx == 3 ? "eth1" : nullptr;
  if (!n) { errno = ENXIO; return nullptr; }
  strcpy(buf, n);
  return buf;
}

}  // extern "C"
