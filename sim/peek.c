/* White-box READS of channel state used by some oracles (never writes).
 * If a refactor breaks this file the build falls back to peek_stub.c. */
#include "ares_private.h"
#include <stdarg.h>
#include <stdio.h>

int peek_available(void) { return 1; }

/* microseconds of an ares_timeval_t, saturating (deadlines can be absurdly far away) */
static long long tv_us(const ares_timeval_t *tv)
{
  if (tv->sec > 4000000000000LL) {
    return 4000000000000000000LL;
  }
  if (tv->sec < -4000000000000LL) {
    return -4000000000000000000LL;
  }
  return (long long)tv->sec * 1000000LL + (long long)tv->usec;
}

int peek_earliest_deadline(const ares_channel_t *ch, long long *us_out)
{
  ares_slist_node_t *n = ares_slist_node_first(ch->queries_by_timeout);
  const ares_query_t *q;
  if (n == NULL) {
    return 0;
  }
  q       = ares_slist_node_val(n);
  *us_out = tv_us(&q->timeout);
  return 1;
}

size_t peek_timeout_index_len(const ares_channel_t *ch)
{
  return ares_slist_len(ch->queries_by_timeout);
}

size_t peek_all_queries_len(const ares_channel_t *ch)
{
  return ares_llist_len(ch->all_queries);
}

/* number of queries in the timeout index whose deadline is <= now */
int peek_expired_in_index(const ares_channel_t *ch, long long now_us)
{
  ares_slist_node_t *n;
  int                cnt = 0;
  for (n = ares_slist_node_first(ch->queries_by_timeout); n != NULL; n = ares_slist_node_next(n)) {
    const ares_query_t *q  = ares_slist_node_val(n);
    long long           dl = tv_us(&q->timeout);
    if (dl <= now_us) {
      cnt++;
    }
  }
  return cnt;
}

int peek_conn_count(const ares_channel_t *ch)
{
  return (int)ares_htable_asvp_num_keys(ch->connnode_by_socket);
}

/* per-query attempt info for the C06 per-attempt wait oracle: fills up to cap entries, returns count */
struct peek_qinfo { unsigned short qid; long long ts_us; long long deadline_us; unsigned long try_count; int using_tcp; int server_idx; int no_retries; };
int peek_queries(const ares_channel_t *ch, struct peek_qinfo *out, int cap)
{
  ares_slist_node_t *n;
  int                cnt = 0;
  for (n = ares_slist_node_first(ch->queries_by_timeout); n != NULL && cnt < cap; n = ares_slist_node_next(n)) {
    const ares_query_t *q = ares_slist_node_val(n);
    out[cnt].qid         = q->qid;
    out[cnt].ts_us       = tv_us(&q->ts);
    out[cnt].deadline_us = tv_us(&q->timeout);
    out[cnt].try_count   = (unsigned long)q->try_count;
    out[cnt].using_tcp   = q->using_tcp ? 1 : 0;
    out[cnt].no_retries  = q->no_retries ? 1 : 0;
    out[cnt].server_idx  = (q->conn != NULL && q->conn->server != NULL) ? (int)q->conn->server->idx : -1;
    cnt++;
  }
  return cnt;
}

size_t peek_num_servers(const ares_channel_t *ch) { return ares_slist_len(ch->servers); }

int peek_channel_opts(const ares_channel_t *ch, long *tries, long *timeout_ms, long *maxtimeout_ms, long *ndots, long *rotate)
{
  *tries = (long)ch->tries; *timeout_ms = (long)ch->timeout; *maxtimeout_ms = (long)ch->maxtimeout; *ndots = (long)ch->ndots; *rotate = ch->rotate ? 1 : 0;
  return 1;
}

/* complete effective configuration, rendered as text lines "key=value" (C16: original vs copy, before vs after reinit) */
static size_t pf_add(char *out, size_t cap, size_t off, const char *fmt, ...)
{
  va_list ap;
  int     n;
  if (off >= cap) {
    return off;
  }
  va_start(ap, fmt);
  n = vsnprintf(out + off, cap - off, fmt, ap);
  va_end(ap);
  if (n < 0) {
    return off;
  }
  return off + (size_t)n > cap ? cap : off + (size_t)n;
}

size_t peek_full(const ares_channel_t *ch, char *out, size_t cap)
{
  size_t off = 0;
  size_t i;
  off = pf_add(out, cap, off, "flags=%u\n", ch->flags);
  off = pf_add(out, cap, off, "timeout=%zu\n", ch->timeout);
  off = pf_add(out, cap, off, "tries=%zu\n", ch->tries);
  off = pf_add(out, cap, off, "ndots=%zu\n", ch->ndots);
  off = pf_add(out, cap, off, "maxtimeout=%zu\n", ch->maxtimeout);
  off = pf_add(out, cap, off, "rotate=%d\n", ch->rotate ? 1 : 0);
  off = pf_add(out, cap, off, "sndbuf=%d\n", ch->socket_send_buffer_size);
  off = pf_add(out, cap, off, "rcvbuf=%d\n", ch->socket_receive_buffer_size);
  off = pf_add(out, cap, off, "domains=");
  for (i = 0; i < ch->ndomains; i++) {
    off = pf_add(out, cap, off, "%s%s", i ? "," : "", ch->domains[i]);
  }
  off = pf_add(out, cap, off, "\n");
  off = pf_add(out, cap, off, "sortlist=");
  for (i = 0; i < ch->nsort; i++) {
    char buf[64];
    buf[0] = 0;
    ares_inet_ntop(ch->sortlist[i].addr.family, &ch->sortlist[i].addr.addr, buf, sizeof(buf));
    off = pf_add(out, cap, off, "%s%s/%u", i ? "," : "", buf, (unsigned)ch->sortlist[i].mask);
  }
  off = pf_add(out, cap, off, "\n");
  off = pf_add(out, cap, off, "lookups=%s\n", ch->lookups ? ch->lookups : "");
  off = pf_add(out, cap, off, "ednspsz=%zu\n", ch->ednspsz);
  off = pf_add(out, cap, off, "qcache_max_ttl=%u\n", ch->qcache_max_ttl);
  off = pf_add(out, cap, off, "udp_max_queries=%zu\n", ch->udp_max_queries);
  off = pf_add(out, cap, off, "retry_chance=%u\n", (unsigned)ch->server_retry_chance);
  off = pf_add(out, cap, off, "retry_delay=%zu\n", ch->server_retry_delay);
  off = pf_add(out, cap, off, "local_dev=%s\n", ch->local_dev_name);
  off = pf_add(out, cap, off, "local_ip4=%u\n", ch->local_ip4);
  off = pf_add(out, cap, off, "local_ip6=");
  for (i = 0; i < 16; i++) {
    off = pf_add(out, cap, off, "%02x", ch->local_ip6[i]);
  }
  off = pf_add(out, cap, off, "\n");
  off = pf_add(out, cap, off, "optmask=%u\n", ch->optmask);
  return off;
}

/* a configuration reload (ares_reinit) has been started and has not finished applying */
int peek_reinit_pending(const ares_channel_t *ch)
{
  return ch != NULL && ch->reinit_pending ? 1 : 0;
}
