/* White-box READS of channel state used by some oracles (never writes).
 * If a refactor breaks this file the build falls back to peek_stub.c. */
#include "ares_private.h"

int peek_available(void) { return 1; }

int peek_earliest_deadline(const ares_channel_t *ch, long long *us_out)
{
  ares_slist_node_t *n = ares_slist_node_first(ch->queries_by_timeout);
  const ares_query_t *q;
  if (n == NULL) {
    return 0;
  }
  q       = ares_slist_node_val(n);
  *us_out = (long long)q->timeout.sec * 1000000LL + (long long)q->timeout.usec;
  return 1;
}

size_t peek_timeout_index_len(const ares_channel_t *ch)
{
  return ares_slist_len(ch->queries_by_timeout);
}

size_t peek_all_queries_len(const ares_channel_t *ch)
{
  return ares_llist_len(ch->all_queries);
}

/* number of queries in the timeout index whose deadline is <= now */
int peek_expired_in_index(const ares_channel_t *ch, long long now_us)
{
  ares_slist_node_t *n;
  int                cnt = 0;
  for (n = ares_slist_node_first(ch->queries_by_timeout); n != NULL; n = ares_slist_node_next(n)) {
    const ares_query_t *q  = ares_slist_node_val(n);
    long long           dl = (long long)q->timeout.sec * 1000000LL + (long long)q->timeout.usec;
    if (dl <= now_us) {
      cnt++;
    }
  }
  return cnt;
}

int peek_conn_count(const ares_channel_t *ch)
{
  return (int)ares_htable_asvp_num_keys(ch->connnode_by_socket);
}
