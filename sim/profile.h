// Per-property profile knobs consumed by the world (servers/network) and by the run loop.
#pragma once
#include <vector>
#include <string>
#include <stdint.h>

struct Profile {
  std::string id;                 // "C01" ...
  std::vector<uint32_t> ttl_choices{0, 1, 2, 5, 30, 300, 3600, 86400};
  int max_addrs = 6;              // max A/AAAA records in an answer
  int max_cname_chain = 2;
  int soa_pct = 70;
  int big_answer_pct = 0;         // chance of a large RRset (forces TC over UDP)
  int foreign_class_pct = 0;      // add a foreign-class RR to the answer
  int additional_addr_pct = 0;    // add address records in the additional section (must be ignored)
  int mixed_family_pct = 0;       // add records of the other family to an A/AAAA answer
};
