// Mode B (threaded) runner: caller threads, the library's event thread and its reload thread are real pthreads that run
// one at a time under the baton scheduler (sched.c). One run per process.
#include "run.h"
#include "oracles.h"
#include "simsched.h"
#include <unistd.h>
#include <algorithm>

// The oracle's own white-box reads go through instrumented c-ares accessors; they are made while every thread is blocked
// (or by the thread holding the baton) and must not be mistaken by TSan for unsynchronised reads of the library.
extern "C" void AnnotateIgnoreReadsBegin(const char *, int) __attribute__((weak));
extern "C" void AnnotateIgnoreReadsEnd(const char *, int) __attribute__((weak));

namespace {

struct MB {
  Run *run = nullptr;
  std::vector<std::vector<Step>> prog;     // per caller thread
  std::vector<int> tids;
  uint64_t seed = 0;
  bool finished = false;
  int zero_transitions = 0;                // number of instants at which the ledger went to zero outstanding requests
  int64_t last_activity = 0;
  std::string end_reason;
};
MB *g_mb = nullptr;

const char *why_name(int w) {
  static const char *n[] = {"none", "mutex", "cond", "join", "waitcall", "sleep", "io", "appwait", "start"};
  return w >= 0 && w <= 8 ? n[w] : "?";
}

int64_t ops_now() { return W.now_us; }
int64_t ops_next_event() { return W.next_flight_time(); }
void ops_advance(int64_t t) {
  if (sched_idle_jump && g_mb && g_mb->run && peek_available()) {
    // Nothing can run before t. If a query's deadline passes well before the event thread's own wake-up (and before any
    // packet that could wake it), that query outwaits its deadline: nobody will retry or fail it in time.
    Run &run = *g_mb->run;
    Chan &c = run.chans.empty() ? *(Chan *)nullptr : run.chans[0];
    if (!run.chans.empty() && c.alive && !c.destroying && c.ch) {
      long long dl = 0;
      if (AnnotateIgnoreReadsBegin) AnnotateIgnoreReadsBegin(__FILE__, __LINE__);
      int have_dl = peek_earliest_deadline(c.ch, &dl);
      if (AnnotateIgnoreReadsEnd) AnnotateIgnoreReadsEnd(__FILE__, __LINE__);
      if (have_dl) {
        // rounding of the hint (+1 ms, truncated microseconds); in "slow machine" runs the clock steps taken while threads were
        // runnable may lie between the event thread's hint computation and its wait call, so all of them count as slack
        // (those runs still catch a wait without any deadline)
        int64_t slack = 3000 + sched_stall_total_us();
        int64_t d_ev = -2;   // -2: no event thread waiting, -1: waits without deadline
        for (int i = 0; i < sched_nthreads(); i++)
          if (sched_thread_is_lib(i) && sched_thread_state(i) == 1 && sched_thread_why(i) == WHY_WAITCALL) { int64_t d = sched_thread_deadline(i); if (d_ev == -2 || (d_ev >= 0 && (d < 0 || d > d_ev)) ) d_ev = d; }
        int64_t nf = W.next_flight_time();
        bool ev_late = d_ev == -1 || (d_ev >= 0 && d_ev > (int64_t)dl + slack);
        bool net_late = nf < 0 || nf > (int64_t)dl + slack;
        if (d_ev != -2 && ev_late && net_late && t > (int64_t)dl + slack) {
          run.note("event_thread_overslept");
          if (run.viol.empty() || run.viol.back().oracle != "event_thread_oversleeps_deadline")
            run.violate("C07", "event_thread_oversleeps_deadline", "a query deadline at +" + std::to_string(((int64_t)dl - run.cfg.t0_us) / 1000) + " ms passes while no thread can run: the event thread sleeps " + (d_ev < 0 ? std::string("without a deadline") : "until +" + std::to_string((d_ev - run.cfg.t0_us) / 1000) + " ms") + ", next network event " + (nf < 0 ? std::string("none") : "+" + std::to_string((nf - run.cfg.t0_us) / 1000) + " ms") + " (now +" + std::to_string((W.now_us - run.cfg.t0_us) / 1000) + " ms)");
        } else run.note("idle_jump_deadline_checked");
      }
    }
  }
  if (t > W.now_us) W.now_us = t;
  W.deliver_due();
}

std::string hex64(uint64_t v) { char b[20]; snprintf(b, sizeof b, "%016llx", (unsigned long long)v); return b; }

[[noreturn]] void finish_and_exit(Run &run, int code) {
  if (run.cfg.profile == "C14B") {
    // one failing allocation with the event thread running: everything that goes wrong in such a run is C14's business
    for (auto &v : run.viol) if (v.prop != "C14") { v.oracle = "threaded_" + v.prop + "_" + v.oracle; v.prop = "C14"; }
    if (g_alloc.failed) run.note("allocation_failure_delivered");
    if (!g_alloc.fail_site.empty()) for (auto &v : run.viol) v.detail += " [the failed allocation was in " + g_alloc.fail_site + "]";
  }
  // RUN line (same shape as Mode A) plus the scheduling decisions, then leave without unwinding other threads
  bool nt = profile_nontrivial(run);
  JW j; j.obj();
  j.kv("seed", run.cfg.seed);
  if (run.cfg.knob("fail_at", -1) > 0) j.kv("sub", run.cfg.knob("fail_at"));
  j.kv("trace", hex64(W.trace_hash ^ sched_decision_hash())).kv("shape", hex64(W.shape_hash ^ (sched_decision_hash() * 31))).kv("nt", nt);
  j.kv("steps", (int64_t)sched_steps()).kv("reqs", (int64_t)run.reqs.size()).kv("txs", (int64_t)W.txs.size()).kv("vt_us", W.now_us - run.cfg.t0_us);
  j.kv("switches", (int64_t)sched_switches()).kv("threads", (int64_t)sched_nthreads());
  j.key("viol").arr();
  for (auto &v : run.viol) j.obj().kv("prop", v.prop).kv("oracle", v.oracle).kv("detail", v.detail).end_obj();
  j.end_arr();
  j.key("probe").obj(); for (auto &p : run.probe) j.kv(p.first.c_str(), p.second); j.end_obj();
  std::vector<int> dec(200000);
  int nd = sched_get_decisions(dec.data(), (int)dec.size());
  j.key("decisions").arr(); for (int i = 0; i < nd; i++) j.val((int64_t)dec[(size_t)i]); j.end_arr();
  j.end_obj();
  printf("RUN %s\n", j.s.c_str());
  // SUMMARY line for the driver's aggregation
  JW s; s.obj();
  s.kv("profile", run.cfg.profile).kv("runs", (int64_t)1).kv("nontrivial", (int64_t)(nt ? 1 : 0)).kv("violations", (int64_t)run.viol.size()).kv("wall_s", 0.0);
  s.kv("virt_s", (double)(W.now_us - run.cfg.t0_us) / 1e6).kv("reqs", (int64_t)run.reqs.size()).kv("steps", (int64_t)sched_steps()).kv("txs", (int64_t)W.txs.size()).kv("peek", (int64_t)peek_available());
  s.key("shapes").arr(); if (nt) s.val(hex64(W.shape_hash ^ (sched_decision_hash() * 31))); s.end_arr();
  s.key("stat").obj();
  for (auto &p : run.probe) s.kv(("probe." + p.first).c_str(), p.second);
  for (auto &p : W.stat) if (p.first.compare(0, 4, "cfg.")) s.kv(p.first.c_str(), p.second);
  for (auto &p : W.fault_armed) s.kv((std::string("fault_armed.") + fault_class_name[p.first]).c_str(), (int64_t)p.second);
  s.kv((std::string("evsys.") + std::to_string(run.cfg.evsys)).c_str(), (int64_t)1);
  s.kv((std::string("sched_policy.") + std::to_string(run.cfg.sched_policy)).c_str(), (int64_t)1);
  s.kv("sched.switches", (int64_t)sched_switches()).kv("sched.points", (int64_t)sched_steps()).kv("fault_fired.clock_step_while_running", (int64_t)sched_stalls()).kv("fault_fired.spurious_cond_wakeup", (int64_t)sched_spurious_wakeups());
  s.end_obj();
  s.key("samples").arr();
  if (nt) { JW e; e.obj().kv("seed", run.cfg.seed).kv("threads", (int64_t)sched_nthreads()).kv("requests", (int64_t)run.reqs.size()).kv("scheduling_points", (int64_t)sched_steps()).kv("context_switches", (int64_t)sched_switches()).end_obj(); s.raw(e.s); }
  s.end_arr();
  s.kv("rule", profile_rule(run.cfg.profile));
  s.end_obj();
  printf("SUMMARY %s\n", s.s.c_str());
  fflush(stdout);
  _exit(code);
}

std::string thread_table() {
  std::string o;
  for (int i = 0; i < sched_nthreads(); i++) {
    int st = sched_thread_state(i);
    o += std::string(i ? ", " : "") + sched_thread_name(i) + "#" + std::to_string(i) + "=" + (st == 0 ? "runnable" : st == 1 ? std::string("blocked(") + why_name(sched_thread_why(i)) + ")" : "done");
  }
  return o;
}

void ops_quiescent() {
  // nothing runnable, no network event, no timed wait: the system can make no further progress on its own
  Run &run = *g_mb->run;
  int outstanding = run.outstanding();
  bool mutex_or_join = false, appwait = false;
  for (int i = 0; i < sched_nthreads(); i++) if (sched_thread_state(i) == 1) { int w = sched_thread_why(i); if (w == WHY_MUTEX) mutex_or_join = true; if (w == WHY_COND || w == WHY_JOIN) appwait = true; }
  std::string tt = thread_table();
  if (mutex_or_join) run.violate("C11", "deadlock", "no thread can run and at least one waits for a mutex: " + tt);
  else if (outstanding > 0) {
    std::string who;
    for (auto &r : run.reqs) if (r.accepted && r.cb_count == 0) { who = std::to_string(r.token) + " (" + req_kind_name[r.kind] + " " + r.name + ", submitted at +" + std::to_string((r.t_submit - run.cfg.t0_us) / 1000) + " ms)"; break; }
    run.violate("C07", "query_never_completes_with_event_thread", std::to_string(outstanding) + " request(s) outstanding, first " + who + ", but every thread sleeps without a deadline and nothing is in flight (now +" + std::to_string((W.now_us - run.cfg.t0_us) / 1000) + " ms): " + tt);
  } else if (appwait) run.violate("C11", "lost_wakeup", "no request is outstanding but a thread still waits (queue-empty wait or join never released): " + tt);
  else run.violate("C11", "quiescent_before_end", "scheduler quiescent before the run ended: " + tt);
  finish_and_exit(run, 3);
}
void ops_too_many() {
  Run &run = *g_mb->run;
  run.violate("C11", "step_budget_exhausted", "scheduling-point budget exhausted (livelock or unbounded work): " + thread_table());
  finish_and_exit(run, 3);
}

int pred_all_done(void *a) { Run *r = (Run *)a; return r->outstanding() == 0; }

void exec_caller_step(Run &run, const Step &s, int thr) {
  Chan &c = run.chans[0];
  if (!c.alive) return;
  run.steps_done++;
  W.mix_shape(0x5B00 + (uint64_t)s.k * 7 + (uint64_t)thr);
  switch (s.k) {
    case S_REQ: run.submit(run.pick_kind(s.a), (int)s.b, (int)s.c, (int)(s.d % R_NREACT), (int)(s.d / R_NREACT), false, 0, (int)(s.d / (R_NREACT * K_NKINDS) + s.c / 7)); break;
    case S_THINK: run.note("think"); sched_sleep_until(W.now_us + (int64_t)s.a * 1000); break;
    case S_CANCEL: run.do_cancel(0); break;
    case S_SETSRV: run.set_servers_variant((int)s.a); break;
    case S_REINIT: run.do_reinit(0); break;
    case S_SORTLIST: { static const char *sl[] = {"10.0.0.0/8", "fd00::/8", "192.0.2.0/24 10.128.0.0/9"}; static const char *canon[] = {"10.0.0.0/8", "fd00::/8", "192.0.2.0/24,10.128.0.0/9"}; W.api_seq++; int rc = ares_set_sortlist(c.ch, sl[(size_t)s.a % 3]); run.note("set_sortlist"); if (rc == ARES_SUCCESS) run.user_set_later["sortlist"] = canon[(size_t)s.a % 3]; break; }
    case S_LOCAL: { W.api_seq++; if (s.a & 1) ares_set_local_dev(c.ch, (s.a & 2) ? "eth1" : "eth0"); else ares_set_local_ip4(c.ch, 0xC0000250 + (unsigned)(s.a & 3)); run.note("set_local"); break; }
    case S_QUERYINFO: {
      W.api_seq++;
      size_t n = ares_queue_active_queries(c.ch);
      struct timeval tv, mx; mx.tv_sec = 1; mx.tv_usec = 0;
      (void)ares_timeout(c.ch, (s.a & 1) ? &mx : nullptr, &tv);
      run.note("queue_info");
      (void)n;
      break;
    }
    case S_DUP: {
      ares_channel_t *copy = nullptr;
      W.api_seq++;
      int rc = ares_dup(&copy, c.ch);
      run.note(rc == ARES_SUCCESS ? "dup_ok" : "dup_failed");
      if (copy) ares_destroy(copy);
      break;
    }
    case S_SAVEOPT: {
      struct ares_options o; int mask = 0; memset(&o, 0, sizeof o);
      W.api_seq++;
      (void)ares_save_options(c.ch, &o, &mask);
      ares_destroy_options(&o);
      run.note("save_options");
      break;
    }
    case S_CSVROUND: { W.api_seq++; char *csv = ares_get_servers_csv(c.ch); if (csv) ares_free_string(csv); run.note("get_servers_csv"); break; }
    case S_FILE: { W.set_file("/etc/resolv.conf", run.cfg.resolv_conf + "options ndots:" + std::to_string(1 + s.a % 3) + "\n"); run.note("system_files_rewritten"); break; }
    case S_FAULT: {
      // the next wait call of the event thread is interrupted (EINTR) or returns without any event
      if (!W.faults_enabled) break;
      Fault f; f.cls = FC_WAIT; f.err = EINTR; f.scope = 0; f.mode = (s.a & 1) ? 2 : 0;
      W.arm(f);
      run.note("wait_fault_armed");
      break;
    }
    case S_INOTIFY: { W.inotify_event("resolv.conf"); run.note("inotify_event"); sched_point(WHY_IO); break; }
    case S_WAITEMPTY: {
      // (6) a successful wait needs an instant inside the call at which nothing was outstanding
      int timeout = s.a % 3 == 0 ? -1 : (s.a % 3 == 1 ? (int)(s.b % 50) : 200 + (int)(s.b % 3000));
      // "outstanding" = the accepting call has returned and no callback yet (a request another thread is still submitting
      // is concurrent with this call, not outstanding before it)
      int z0 = run.settled_zero_transitions;
      bool empty_at_entry = run.settled_outstanding == 0;
      W.api_seq++;
      run.note(timeout < 0 ? "wait_empty_infinite" : "wait_empty_timed");
      int64_t t0 = W.now_us;
      int rc = ares_queue_wait_empty(c.ch, timeout);
      if (rc == ARES_SUCCESS) {
        run.note("wait_empty_success");
        if (!empty_at_entry && run.settled_zero_transitions == z0 && run.settled_outstanding > 0) run.violate("C11", "wait_empty_success_while_outstanding", "ares_queue_wait_empty returned ARES_SUCCESS although " + std::to_string(run.settled_outstanding) + " request(s) were outstanding during the whole call");
      } else if (rc == ARES_ETIMEOUT) {
        run.note("wait_empty_timeout");
        // observation only (the property does not speak about the accuracy of the timeout): the deadline's microsecond field
        // is not normalised, so the wait can end up to a second early
        if (timeout >= 0 && W.now_us - t0 < (int64_t)timeout * 1000) run.note("wait_empty_timed_out_early");
      }
      break;
    }
    default: break;
  }
}

struct CallerArg { int thr; };
}
void c16b_end(Run &run);
namespace {
void *caller_main(void *a) {
  CallerArg *ca = (CallerArg *)a;
  Run &run = *g_mb->run;
  for (auto &s : g_mb->prog[(size_t)ca->thr]) {
    if (!run.chans[0].alive) break;
    exec_caller_step(run, s, ca->thr);
    sched_point(WHY_APPWAIT);
  }
  return nullptr;
}

int64_t realtime_off() { return W.realtime_off_us; }

}  // namespace

int run_mode_b(const RunCfg &cfg, const std::vector<Step> &plan, const std::vector<int> *decisions, std::string &line_out) {
  (void)line_out;
  static MB mb;
  g_mb = &mb;
  static Run *runp = new Run(cfg);
  Run &run = *runp;
  mb.run = &run; mb.seed = cfg.seed;
  run.plan = plan;
  profile_attach(run);
  g_run = &run;
  run.setup_world();
  W.on_tx = [&run](Tx &t) { for (auto &f : run.tx_obs) f(run, t); };
  for (auto &f : run.world_ready) f(run);
  // count instants at which the ledger becomes empty (for the queue-wait oracle)
  auto prev_done = run.on_done;
  run.on_done = [prev_done](Run &r, Req &q) { if (prev_done) prev_done(r, q); if (r.outstanding() == 0) g_mb->zero_transitions++; };
  alloc_install();
  g_alloc.reset(); g_alloc.active = true;
  g_alloc.fail_at = (long)cfg.knob("fail_at", -1);

  int nthreads = cfg.nthreads > 0 ? cfg.nthreads : 2;
  mb.prog.assign((size_t)nthreads + 1, {});
  for (auto &s : plan) { int t = s.thr >= 1 && s.thr <= nthreads ? s.thr : 1 + (int)((uint64_t)(s.a + s.b) % (uint64_t)nthreads); mb.prog[(size_t)t].push_back(s); }

  struct sched_world_ops ops = {ops_now, ops_next_event, ops_advance, ops_quiescent, ops_too_many};
  sched_realtime_off = realtime_off;
  sched_init(cfg.seed * 2654435761ULL + 17, cfg.sched_policy, cfg.sched_preempt, &ops, 400000);
  if (decisions) sched_set_decisions(decisions->data(), (int)decisions->size());
  sched_set_stall((int)cfg.knob("sched_stall_permille", 0), cfg.knob("sched_stall_max_us", 1000));
  sched_set_spurious((int)cfg.knob("spurious_permille", 0));

  if (!run.make_channel(0)) { run.note("init_failed"); finish_and_exit(run, 0); }
  std::vector<CallerArg> args((size_t)nthreads + 1);
  for (int t = 1; t <= nthreads; t++) { args[(size_t)t].thr = t; std::string nm = "caller" + std::to_string(t); mb.tids.push_back(sched_spawn(caller_main, &args[(size_t)t], nm.c_str())); }
  for (int tid : mb.tids) sched_join_tid(tid);
  run.note("callers_joined");
  // faults stop; every request still outstanding must complete on the event thread alone within its retry budget
  W.faults_enabled = false; W.faults.clear();
  for (auto &sv : W.servers) sv.cfg.partitioned = false;
  run.faults_stopped_at = W.now_us;
  {
    long tries = run.eff_tries > 0 ? run.eff_tries : 3;
    long nsrv = (long)run.cfg.servers.size() + 1;
    long tmo = run.eff_timeout_ms > 0 ? run.eff_timeout_ms : 2000;
    long maxt = run.eff_maxtimeout_ms > 0 ? run.eff_maxtimeout_ms : tmo * 8;
    int64_t budget_ms = (int64_t)tries * nsrv * (maxt > tmo ? maxt : tmo) * 4 + 20000;
    if (budget_ms > 3600000) budget_ms = 3600000;
    int ok = sched_wait(pred_all_done, &run, W.now_us + budget_ms * 1000, WHY_APPWAIT);
    if (!ok) {
      std::string who;
      for (auto &r : run.reqs) if (r.accepted && r.cb_count == 0) { who = std::to_string(r.token) + " (" + req_kind_name[r.kind] + " " + r.name + ")"; break; }
      run.violate("C07", "query_outwaits_budget_with_event_thread", "request " + who + " still outstanding " + std::to_string(budget_ms) + " ms after the last application call with the event thread running (" + thread_table() + ")");
    } else run.note("drained");
    run.drained = ok != 0;
  }
  if (cfg.profile == "C14B" && g_alloc.failed > 0 && run.chans[0].alive) {
    // the channel must still work after the failure: a fresh query on it completes (event thread alone drives it)
    int sel = -1;
    for (size_t i = 0; i < run.cfg.names.size() && sel < 0; i++) {
      const std::string &b = run.cfg.names[i];
      if (b.empty() || b[0] == '!' || b.find('.') == std::string::npos) continue;
      if (W.zone_outcome(dnsref::name_from_text("t9999." + b), 1) == Z_DATA) sel = (int)i;
    }
    if (sel >= 0) {
      // (the failure may have hit the configuration calls of the scenario itself: give the channel its servers again first)
      std::vector<int> all; for (size_t i = 0; i < run.cfg.servers.size(); i++) all.push_back((int)i);
      W.api_seq++;
      int rcs = ares_set_servers_ports_csv(run.chans[0].ch, servers_csv(run.cfg.servers, all).c_str());
      if (rcs != ARES_SUCCESS) run.violate("C14", "channel_unusable_after_failure", std::string("with the event thread: ares_set_servers_ports_csv returned ") + ares_status_name(rcs) + " after the failed allocation (no further failure injected)");
      run.active = all;
      int saved_qt = run.cfg.qtypes.empty() ? 1 : run.cfg.qtypes[0];
      if (run.cfg.qtypes.empty()) run.cfg.qtypes.push_back(1); else run.cfg.qtypes[0] = 1;
      int tok = run.submit(K_QUERY_DNSREC, sel, 0, R_NONE, 0, false, 0, 0);
      run.cfg.qtypes[0] = saved_qt;
      run.note("usability_checked");
      if (tok >= 0) {
        int ok2 = sched_wait(pred_all_done, &run, W.now_us + 120000000LL, WHY_APPWAIT);
        const Req &q = run.reqs[(size_t)tok];
        if (!ok2 || q.cb_count == 0 || (q.status != ARES_SUCCESS && q.status != ARES_ENODATA && q.status != ARES_ENOTFOUND))
          run.violate("C14", "channel_unusable_after_failure", "with the event thread: a fresh query (" + q.name + ") after allocation #" + std::to_string(cfg.knob("fail_at")) + " had failed ended with " + (q.cb_count ? ares_status_name(q.status) : "no callback") + " although the network is healthy (" + thread_table() + ")");
        else run.note("usability_ok");
      }
    }
  }
  if (cfg.profile == "C16B" && run.chans[0].alive) {
    // let every reload that has been started (by a caller, or by the event thread on a change notification) finish: the flag
    // must be seen clear at two instants 100 ms apart (virtual time; the event thread handles a pending notification at once)
    int clear = 0;
    for (int i = 0; i < 600 && clear < 2; i++) { clear = peek_reinit_pending(run.chans[0].ch) ? 0 : clear + 1; sched_sleep_until(W.now_us + 100000); }
    if (clear < 2) run.violate("C11", "reload_never_finishes", "a configuration reload was still in progress 60 s after the last application call: " + thread_table());
    else { run.note("reloads_settled"); c16b_end(run); }
  }
  run.destroy_all();
  run.note("destroyed");
  int unjoined = sched_unjoined_lib_threads();
  if (unjoined) run.violate("C11", "library_thread_not_joined", std::to_string(unjoined) + " thread(s) created by the library were not joined by the time ares_destroy returned: " + thread_table());
  run.final_oracles();
  if (run.at_end) run.at_end(run);
  ares_library_cleanup();
  g_alloc.active = false;
  run.note("alloc_calls", g_alloc.calls);
  if (!g_alloc.live.empty()) {
    run.note("leaked_allocations", (int64_t)g_alloc.live.size());
    if (cfg.profile == "C14B") {
      size_t bytes = 0; long first = -1; size_t fsz = 0;
      for (auto &p : g_alloc.live) { bytes += p.second.size; if (first < 0 || p.second.index < first) { first = p.second.index; fsz = p.second.size; } }
      run.violate("C14", "leak", "with the event thread: " + std::to_string(g_alloc.live.size()) + " allocation(s), " + std::to_string(bytes) + " bytes, still live after ares_destroy and ares_library_cleanup" + (cfg.knob("fail_at", -1) > 0 ? " (allocation #" + std::to_string(cfg.knob("fail_at")) + " was failed)" : " (no failure injected)") + "; earliest is allocation #" + std::to_string(first) + " of " + std::to_string(fsz) + " bytes");
    }
  }
  if (g_alloc.bad_free && cfg.profile == "C14B") run.violate("C14", "bad_free", std::to_string(g_alloc.bad_free) + " free/realloc call(s) on a pointer the allocator never handed out or already released");
  finish_and_exit(run, 0);
}
