// Mode B (threaded) runner -- placeholder until the threaded engine is built.
#include "run.h"
#include <unistd.h>
int run_mode_b(const RunCfg &, const std::vector<Step> &, const std::vector<int> *, std::string &) { fprintf(stderr, "SIM-INFRA mode B not built\n"); _exit(2); }
