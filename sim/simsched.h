/* Deterministic thread scheduler (Mode B). Implemented in sched.c, which is never
 * compiled with -fsanitize=thread so that the baton hand-off is invisible to TSan. */
#pragma once
#include <stdint.h>
#include <pthread.h>
#ifdef __cplusplus
extern "C" {
#endif

typedef int (*sched_pred_t)(void *arg);

/* World callbacks supplied by the simulator core. */
struct sched_world_ops {
  int64_t (*now)(void);
  int64_t (*next_event)(void);          /* next network/timer event time or -1 */
  void (*advance_to)(int64_t t);        /* move the clock to t and deliver due events */
  void (*quiescent)(void);              /* nothing runnable, no event, no deadline: never returns */
  void (*too_many_steps)(void);         /* step budget exhausted: never returns */
};

int  sched_active(void);
void sched_init(uint64_t seed, int policy, int preempt_permille, const struct sched_world_ops *ops, long max_steps);
void sched_set_decisions(const int *dec, int n);   /* replay mode: fixed decisions */
int  sched_get_decisions(int *out, int cap);       /* recorded decisions */
int  sched_self(void);
void sched_point(int why);                         /* scheduling point */
/* Block until pred(arg) is true (return 1) or virtual deadline passes (return 0). deadline<0 = none. */
int  sched_wait(sched_pred_t pred, void *arg, int64_t deadline_us, int why);
void sched_sleep_until(int64_t t);
/* Harness-level threads (caller threads). */
int  sched_spawn(void *(*fn)(void *), void *arg, const char *name);
void sched_join_tid(int tid);
int  sched_thread_done(int tid);
long sched_steps(void);
long sched_switches(void);
uint64_t sched_decision_hash(void);
int  sched_nthreads(void);
const char *sched_thread_name(int tid);
int  sched_thread_state(int tid);    /* 0 runnable 1 blocked 2 done */
int  sched_thread_why(int tid);
int  sched_unjoined_lib_threads(void);
void sched_set_stall(int permille, int64_t max_us);   /* probability (per scheduling point) and bound of a "slow machine" clock step */
long sched_stalls(void);
void sched_set_spurious(int permille);                 /* probability of a spurious wake-up per condition wait */
long sched_spurious_wakeups(void);
int64_t sched_stall_total_us(void);
int64_t sched_thread_deadline(int tid);               /* virtual deadline of a blocked thread, -1 = none */
int  sched_thread_is_lib(int tid);
extern int sched_idle_jump;

/* pthread replacements used by the redirected c-ares objects */
int sim_pthread_create(pthread_t *t, const pthread_attr_t *a, void *(*fn)(void *), void *arg);
int sim_pthread_join(pthread_t t, void **rv);
int sim_pthread_mutex_init(pthread_mutex_t *m, const pthread_mutexattr_t *a);
int sim_pthread_mutex_destroy(pthread_mutex_t *m);
int sim_pthread_mutex_lock(pthread_mutex_t *m);
int sim_pthread_mutex_unlock(pthread_mutex_t *m);
int sim_pthread_cond_init(pthread_cond_t *c, const pthread_condattr_t *a);
int sim_pthread_cond_destroy(pthread_cond_t *c);
int sim_pthread_cond_signal(pthread_cond_t *c);
int sim_pthread_cond_broadcast(pthread_cond_t *c);
int sim_pthread_cond_wait(pthread_cond_t *c, pthread_mutex_t *m);
int sim_pthread_cond_timedwait(pthread_cond_t *c, pthread_mutex_t *m, const struct timespec *ts);
int sim_pthread_mutexattr_init(pthread_mutexattr_t *a);
int sim_pthread_mutexattr_settype(pthread_mutexattr_t *a, int t);
int sim_pthread_mutexattr_destroy(pthread_mutexattr_t *a);

/* fault hook: return nonzero errno to make pthread_create fail */
extern int (*sched_thread_create_fault)(void);
/* realtime offset accessor for timedwait conversion (realtime - monotonic, us) */
extern int64_t (*sched_realtime_off)(void);

enum { WHY_NONE = 0, WHY_MUTEX, WHY_COND, WHY_JOIN, WHY_WAITCALL, WHY_SLEEP, WHY_IO, WHY_APPWAIT, WHY_START };

#ifdef __cplusplus
}
#endif
