// Worker binary: runs a range of seeds of one profile in-process (Mode A) or one seed (Mode B),
// or replays a plan file. Prints one RUN line per run and a SUMMARY line.
#include "run.h"
#include "oracles.h"
#include "simsched.h"
#include <fstream>
#include <sstream>
#include <signal.h>
#include <unistd.h>
#include <time.h>

extern "C" int sim_tid(void) { return sched_self(); }

extern "C" {
__attribute__((used)) const char *__asan_default_options() { return "exitcode=77:detect_leaks=0:abort_on_error=0:allocator_may_return_null=1:detect_stack_use_after_return=0"; }
__attribute__((used)) const char *__ubsan_default_options() { return "halt_on_error=1:exitcode=77:print_stacktrace=1"; }
// Only c-ares is TSan-instrumented. The harness and the virtual kernel are not, but their calls into libc/libstdc++ go
// through TSan's interceptors, which would report "races" between harness threads that in fact run one at a time under the
// (deliberately invisible) baton: ignore accesses made inside interceptors and the allocator events of operator new/delete
// (c-ares allocates with malloc/free through ares_library_init_mem, never with new/delete).
__attribute__((used)) const char *__tsan_default_options() { return "exitcode=66:halt_on_error=1:report_signal_unsafe=0:second_deadlock_stack=1:ignore_interceptors_accesses=1:detect_deadlocks=1"; }
__attribute__((used)) const char *__tsan_default_suppressions() { return "race:operator delete\nrace:operator new\nrace:std::\n"; }
void __sanitizer_set_death_callback(void (*)(void)) __attribute__((weak));
}

static uint64_t g_cur_seed = 0;
static long g_cur_sub = -1;
static std::string g_cur_prof;
static void death_cb() {
  char b[128];
  int n = snprintf(b, sizeof b, "\nSIM-DIED profile=%s seed=%llu sub=%ld\n", g_cur_prof.c_str(), (unsigned long long)g_cur_seed, g_cur_sub);
  if (write(2, b, (size_t)n) < 0) {}
  fflush(stdout);
}
static void on_alarm(int) {
  char b[128];
  int n = snprintf(b, sizeof b, "\nSIM-WATCHDOG profile=%s seed=%llu sub=%ld\n", g_cur_prof.c_str(), (unsigned long long)g_cur_seed, g_cur_sub);
  if (write(2, b, (size_t)n) < 0) {}
  _exit(2);
}
static void on_abort(int) {
  death_cb();
  _exit(77);
}

static std::string plan_json(const std::vector<Step> &plan) {
  JW j; j.arr();
  for (auto &s : plan) { j.arr().val((int64_t)s.k).val(s.a).val(s.b).val(s.c).val(s.d); if (s.thr) j.val((int64_t)s.thr); j.end_arr(); }
  j.end_arr();
  return j.s;
}
static bool plan_from_json(const JV &v, std::vector<Step> &plan) {
  if (v.t != JV::ARR) return false;
  for (auto &e : v.a) {
    if (e.t != JV::ARR || e.a.size() < 5) return false;
    Step s; s.k = (int)e.a[0].i; s.a = e.a[1].i; s.b = e.a[2].i; s.c = e.a[3].i; s.d = e.a[4].i; s.thr = e.a.size() > 5 ? (int)e.a[5].i : 0;
    plan.push_back(s);
  }
  return true;
}
static void apply_overrides(RunCfg &c, const JV *ov) {
  if (!ov || ov->t != JV::OBJ) return;
  for (auto &p : ov->o) {
    int64_t v = p.second.i;
    const std::string &k = p.first;
    c.ov[k] = v;
    if (k == "nservers" && v >= 1 && (size_t)v < c.servers.size()) c.servers.resize((size_t)v);
    else if (k == "faults") c.faults = (int)v;
    else if (k == "loop_style") c.loop_style = (int)v;
    else if (k == "sockfuncs") c.sockfuncs = (int)v;
    else if (k == "pending_write_cb") c.pending_write_cb = (int)v;
    else if (k == "tfo") c.tfo = (int)v;
    else if (k == "tries") c.tries = (int)v;
    else if (k == "timeout_ms") c.timeout_ms = (int)v;
    else if (k == "rotate") c.rotate = (int)v;
    else if (k == "udp_max_queries") c.udp_max_queries = (int)v;
    else if (k == "qcache_max_ttl") c.qcache_max_ttl = (int)v;
  }
}

struct Agg {
  long runs = 0, nontrivial = 0, violations = 0;
  std::set<uint64_t> shapes;
  std::map<std::string, int64_t> stat;
  int64_t virt_us = 0;
  long reqs = 0, steps = 0, txs = 0;
  std::vector<std::string> samples;
};

static std::string hex64(uint64_t v) { char b[20]; snprintf(b, sizeof b, "%016llx", (unsigned long long)v); return b; }

int run_mode_b(const RunCfg &cfg, const std::vector<Step> &plan, const std::vector<int> *decisions, std::string &line_out);

static long g_sub_from = 0, g_max_subs = 0, g_fail_at = 0;
static long one_run(const std::string &prof, uint64_t seed, const JV *replay, Agg &agg, bool print_plan, bool verbose, long sub = -1) {
  g_cur_seed = seed; g_cur_prof = prof; g_cur_sub = sub;
  RunCfg cfg;
  profile_make_cfg(prof, seed, cfg);
  if (sub > 0) cfg.knobs["fail_at"] = sub;
  if (g_fail_at > 0 && !replay) cfg.knobs["fail_at"] = g_fail_at;
  std::vector<Step> plan;
  if (replay) {
    if (const JV *cj = replay->get("cfg")) cfg.load(*cj);
    apply_overrides(cfg, replay->get("cfg_overrides"));
    const JV *st = replay->get("steps");
    if (!st || !plan_from_json(*st, plan)) { fprintf(stderr, "SIM-INFRA bad replay file\n"); exit(2); }
  } else profile_make_plan(cfg, plan);
  if (print_plan) {
    printf("PLAN {\"profile\":\"%s\",\"seed\":%llu,\"cfg_overrides\":{},\"steps\":%s,\"cfg\":%s}\n", prof.c_str(), (unsigned long long)seed, plan_json(plan).c_str(), cfg.dump().c_str());
    fflush(stdout);
  }
  if (cfg.mode == 1) {
    std::vector<int> dec; bool have = false;
    if (replay) { const JV *d = replay->get("decisions"); if (d && d->t == JV::ARR) { for (auto &e : d->a) dec.push_back((int)e.i); have = true; } }
    std::string line;
    run_mode_b(cfg, plan, have ? &dec : nullptr, line);   // never returns normally (prints and exits)
    return 0;
  }
  alarm(120);
  if (prof == "C20") {
    // differential: reference execution first (same plan, whole-message always-writable transport)
    RunCfg rc = cfg; rc.knobs["reference"] = 1;
    Run ref(rc);
    ref.plan = plan;
    profile_attach(ref);
    ref.execute();
    if (getenv("SIM_DUMP_TX")) for (auto &t : W.txs) fprintf(stderr, "REFTX t=%lld fd=%d srv=%d %s %s type=%d attempt=%d beh=%s off=%zu len=%zu\n", (long long)t.t, t.fd, t.server, t.tcp ? "tcp" : "udp", t.qname_lc.c_str(), t.msg.qd.empty() ? -1 : t.msg.qd[0].type, t.attempt, beh_name[t.behaviour], t.stream_off, t.wire.size());
  }
  if (prof == "C14" && replay && cfg.knob("fail_at", -1) > 0) {
    // the differential part of the C14 verdict needs the failure-free execution of the same plan
    RunCfg rc = cfg; rc.knobs.erase("fail_at");
    Run ref(rc);
    ref.plan = plan;
    profile_attach(ref);
    ref.execute();
  }
  Run run(cfg);
  run.plan = plan;
  profile_attach(run);
  run.execute();
  alarm(0);
  if (prof == "C14" && !g_alloc.fail_site.empty()) for (auto &v : run.viol) if (v.prop == "C14") v.detail += " [the failed allocation was in " + g_alloc.fail_site + "]";
  bool nt = profile_nontrivial(run);
  agg.runs++; if (nt) { agg.nontrivial++; agg.shapes.insert(W.shape_hash); }
  agg.virt_us += W.now_us - cfg.t0_us;
  agg.reqs += (long)run.reqs.size(); agg.steps += run.steps_done; agg.txs += (long)W.txs.size();
  for (auto &p : run.probe) agg.stat["probe." + p.first] += p.second;
  for (auto &p : W.stat) if (p.first.compare(0, 4, "cfg.")) agg.stat[p.first] += p.second;
  for (auto &p : W.fault_armed) agg.stat[std::string("fault_armed.") + fault_class_name[p.first]] += p.second;
  agg.stat[std::string("loop_style.") + std::to_string(cfg.loop_style)]++;
  agg.stat[std::string("sockfuncs.") + std::to_string(cfg.sockfuncs)]++;
  if (!cfg.faults) agg.stat["runs_faults_off"]++;
  JW j; j.obj();
  j.kv("seed", seed);
  if (cfg.knob("fail_at", -1) > 0) j.kv("sub", cfg.knob("fail_at"));
  j.kv("trace", hex64(W.trace_hash)).kv("shape", hex64(W.shape_hash)).kv("nt", nt).kv("steps", (int64_t)run.steps_done).kv("reqs", (int64_t)run.reqs.size());
  j.kv("txs", (int64_t)W.txs.size()).kv("vt_us", W.now_us - cfg.t0_us);
  j.key("viol").arr();
  for (auto &v : run.viol) { j.obj().kv("prop", v.prop).kv("oracle", v.oracle).kv("detail", v.detail).end_obj(); agg.violations++; }
  j.end_arr();
  if (verbose) {
    j.key("probe").obj(); for (auto &p : run.probe) j.kv(p.first.c_str(), p.second); j.end_obj();
    j.key("wstat").obj(); for (auto &p : W.stat) j.kv(p.first.c_str(), p.second); j.end_obj();
    j.key("requests").arr();
    for (auto &r : run.reqs) { j.obj().kv("t", (int64_t)r.token).kv("kind", req_kind_name[r.kind]).kv("name", r.name).kv("qtype", (int64_t)r.qtype).kv("cb", (int64_t)r.cb_count).kv("status", ares_status_name(r.status)).kv("sync", r.done_sync).end_obj(); }
    j.end_arr();
  }
  j.end_obj();
  printf("RUN %s\n", j.s.c_str());
  if (getenv("SIM_DUMP_TX")) for (auto &t : W.txs) {
    std::string ck; if (const dnsref::RR *o = t.msg.opt()) { ck = "opt"; for (auto &op : o->opts) if (op.code == 10) ck = "ck=" + hexs(op.data); } else ck = "noopt";
    fprintf(stderr, "TX t=%lld fd=%d srv=%d %s %s type=%d attempt=%d beh=%s off=%zu len=%zu %s src=%s\n", (long long)t.t, t.fd, t.server, t.tcp ? "tcp" : "udp", t.qname_lc.c_str(), t.msg.qd.empty() ? -1 : t.msg.qd[0].type, t.attempt, beh_name[t.behaviour], t.stream_off, t.wire.size(), ck.c_str(), t.src_ip.c_str());
  }
  if (getenv("SIM_DUMP_REQ")) for (auto &q : run.reqs) fprintf(stderr, "REQ #%d %s %s type=%d from_cb=%d accepted=%d submit=%lld done=%lld status=%s cb=%d tx_at_submit=%d tx_at_done=%d sync=%d\n", q.token, req_kind_name[q.kind], q.name.c_str(), q.qtype, (int)q.from_callback, (int)q.accepted, (long long)q.t_submit, (long long)q.t_done, q.status >= 0 ? ares_strerror(q.status) : "-", q.cb_count, q.tx_at_submit, q.tx_at_done, (int)q.done_sync);
  if (getenv("SIM_DUMP_RESP")) for (auto &r : W.resps) {
    std::string ck; if (const dnsref::RR *o = r.msg.opt()) { ck = "opt"; for (auto &op : o->opts) if (op.code == 10) ck = "ck=" + hexs(op.data); } else ck = "noopt";
    std::string rt; for (size_t i = 0; i < r.read_times.size(); i++) rt += " read@" + std::to_string(r.read_times[i]) + "/seq" + std::to_string(i < r.read_seqs.size() ? r.read_seqs[i] : 0);
    fprintf(stderr, "RESP #%d tx=%d srv=%d %s fd=%d forged=%d variant=%d defect=%d acceptable=%d rcode=%d tc=%d len=%zu %s%s %s\n", r.id, r.tx, r.server, r.tcp ? "tcp" : "udp", r.fd, (int)r.forged, r.forge_variant, r.defect, r.acceptable, r.rcode, (int)r.tc, r.wire.size(), ck.c_str(), rt.c_str(), r.unacceptable_why.c_str());
  }
  if (getenv("SIM_DUMP_CALLS")) {
    FILE *f = fopen(getenv("SIM_DUMP_CALLS"), "w");
    if (f) { for (auto &c : W.calls) fprintf(f, "%u t=%lld tid=%d call=%d fd=%d res=%ld err=%d a=%ld b=%ld\n", c.seq, (long long)c.t, c.tid, c.call, c.fd, c.res, c.err, c.a, c.b); fclose(f); }
  }
  if (agg.samples.size() < 3 && nt) {
    JW s; s.obj().kv("seed", seed).kv("steps", (int64_t)plan.size()).kv("requests", (int64_t)run.reqs.size()).kv("transmissions", (int64_t)W.txs.size());
    s.key("plan_head").arr();
    for (size_t i = 0; i < plan.size() && i < 12; i++) { s.arr().val(step_name[plan[i].k < S_NKINDS ? plan[i].k : 0]).val(plan[i].a).val(plan[i].b).end_arr(); }
    s.end_arr().end_obj();
    agg.samples.push_back(s.s);
  }
  fflush(stdout);
  auto it = run.probe.find("alloc_calls");
  return it == run.probe.end() ? 0 : (long)it->second;
}

// C14: one scenario = reference execution (counts N allocator calls) + one execution per failing index
static void enumerate_scenario(const std::string &prof, uint64_t seed, Agg &agg, bool verbose) {
  long n_alloc = 0;
  if (g_sub_from <= 0) n_alloc = one_run(prof, seed, nullptr, agg, false, verbose, -1);
  else {
    // resuming after a death: the count comes from a silent reference execution
    Agg tmp; FILE *keep = stdout; (void)keep;
    RunCfg cfg; profile_make_cfg(prof, seed, cfg);
    std::vector<Step> plan; profile_make_plan(cfg, plan);
    Run ref(cfg); ref.plan = plan; profile_attach(ref); ref.execute();
    auto it = ref.probe.find("alloc_calls"); n_alloc = it == ref.probe.end() ? 0 : (long)it->second;
  }
  std::vector<long> subs;
  if (g_max_subs > 0 && n_alloc > g_max_subs) {
    // evenly spread, offset by the seed so that different scenarios sample different residues
    double stepf = (double)n_alloc / (double)g_max_subs;
    double off = (double)(seed % 97) / 97.0 * stepf;
    long last = 0;
    for (long k = 0; k < g_max_subs; k++) { long n = 1 + (long)(off + (double)k * stepf); if (n > n_alloc) n = n_alloc; if (n != last) subs.push_back(n); last = n; }
  } else for (long n = 1; n <= n_alloc; n++) subs.push_back(n);
  for (long n : subs) { if (n < g_sub_from) continue; one_run(prof, seed, nullptr, agg, false, verbose, n); }
  agg.stat["enum.scenarios"]++;
  agg.stat["enum.alloc_calls_in_reference"] += n_alloc;
  agg.stat["enum.failing_indices_run"] += (int64_t)subs.size();
  if ((long)subs.size() == n_alloc) agg.stat["enum.scenarios_exhaustive"]++;
}

int main(int argc, char **argv) {
  std::string prof = "SMOKE", replay_path;
  uint64_t start = 1; long count = 1;
  bool print_plan = false, verbose = false, plan_only = false;
  for (int i = 1; i < argc; i++) {
    std::string a = argv[i];
    auto nxt = [&]() { return i + 1 < argc ? std::string(argv[++i]) : std::string(); };
    if (a == "--profile") prof = nxt();
    else if (a == "--seed") start = strtoull(nxt().c_str(), nullptr, 10);
    else if (a == "--count") count = atol(nxt().c_str());
    else if (a == "--replay") replay_path = nxt();
    else if (a == "--print-plan") print_plan = true;
    else if (a == "--plan-only") { print_plan = true; plan_only = true; }
    else if (a == "--verbose") verbose = true;
    else if (a == "--sub-from") g_sub_from = atol(nxt().c_str());
    else if (a == "--fail-at") g_fail_at = atol(nxt().c_str());
    else if (a == "--max-subs") g_max_subs = atol(nxt().c_str());
    else { fprintf(stderr, "unknown arg %s\n", a.c_str()); return 2; }
  }
  if (__sanitizer_set_death_callback) __sanitizer_set_death_callback(death_cb);
  signal(SIGALRM, on_alarm);
  signal(SIGABRT, on_abort);
  setvbuf(stdout, nullptr, _IOLBF, 0);
  Agg agg;
  struct timespec t0; clock_gettime(CLOCK_MONOTONIC, &t0);
  if (!replay_path.empty()) {
    std::ifstream f(replay_path);
    std::stringstream ss; ss << f.rdbuf();
    JV v;
    if (!json_parse(ss.str(), v) || v.t != JV::OBJ) { fprintf(stderr, "SIM-INFRA cannot parse %s\n", replay_path.c_str()); return 2; }
    prof = v.gets("profile", prof);
    start = (uint64_t)v.geti("seed", 1);
    if (!profile_known(prof)) { fprintf(stderr, "SIM-INFRA unknown profile %s\n", prof.c_str()); return 2; }
    one_run(prof, start, &v, agg, print_plan, true);
  } else {
    if (!profile_known(prof)) { fprintf(stderr, "SIM-INFRA unknown profile %s\n", prof.c_str()); return 2; }
    if (plan_only) {
      RunCfg cfg; profile_make_cfg(prof, start, cfg);
      std::vector<Step> plan; profile_make_plan(cfg, plan);
      printf("PLAN {\"profile\":\"%s\",\"seed\":%llu,\"cfg_overrides\":{},\"steps\":%s,\"cfg\":%s}\n", prof.c_str(), (unsigned long long)start, plan_json(plan).c_str(), cfg.dump().c_str());
      return 0;
    }
    for (long k = 0; k < count; k++) {
      if (prof == "C14") { enumerate_scenario(prof, start + (uint64_t)k, agg, verbose); g_sub_from = 0; }
      else one_run(prof, start + (uint64_t)k, nullptr, agg, print_plan, verbose);
    }
  }
  struct timespec t1; clock_gettime(CLOCK_MONOTONIC, &t1);
  double wall = (double)(t1.tv_sec - t0.tv_sec) + (double)(t1.tv_nsec - t0.tv_nsec) / 1e9;
  JW j; j.obj();
  j.kv("profile", prof).kv("runs", (int64_t)agg.runs).kv("nontrivial", (int64_t)agg.nontrivial).kv("violations", (int64_t)agg.violations).kv("wall_s", wall);
  j.kv("virt_s", (double)agg.virt_us / 1e6).kv("reqs", (int64_t)agg.reqs).kv("steps", (int64_t)agg.steps).kv("txs", (int64_t)agg.txs).kv("peek", (int64_t)peek_available());
  j.key("shapes").arr(); for (auto s : agg.shapes) j.val(hex64(s)); j.end_arr();
  j.key("stat").obj(); for (auto &p : agg.stat) j.kv(p.first.c_str(), p.second); j.end_obj();
  j.key("samples").arr(); for (auto &s : agg.samples) j.raw(s); j.end_arr();
  j.kv("rule", profile_rule(prof));
  j.end_obj();
  printf("SUMMARY %s\n", j.s.c_str());
  return 0;
}
