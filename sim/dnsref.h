// Independent DNS wire codec used by the virtual servers and the oracles.
// Written from RFC 1035 / 2782 / 3596 / 6891 / 7873; shares no code with c-ares.
#pragma once
#include <stdint.h>
#include <string>
#include <vector>

namespace dnsref {

enum : uint16_t {
  T_A = 1, T_NS = 2, T_CNAME = 5, T_SOA = 6, T_PTR = 12, T_HINFO = 13, T_MX = 15, T_TXT = 16,
  T_AAAA = 28, T_SRV = 33, T_NAPTR = 35, T_OPT = 41, T_ANY = 255, T_CAA = 257
};
enum : uint16_t { F_QR = 0x8000, F_AA = 0x0400, F_TC = 0x0200, F_RD = 0x0100, F_RA = 0x0080, F_AD = 0x0020, F_CD = 0x0010 };

typedef std::vector<std::string> Name;  // labels, raw bytes; root = empty vector

struct Question { Name name; uint16_t type = 0, klass = 1; };

struct EdnsOpt { uint16_t code; std::string data; };

struct RR {
  Name name;
  uint16_t type = 0, klass = 1;
  uint32_t ttl = 0;
  // typed fields (used according to type)
  std::string addr;          // A (4 bytes) / AAAA (16 bytes)
  Name target;               // NS CNAME PTR MX(exchange) SRV(target) SOA(mname) NAPTR(replacement)
  Name rname;                // SOA
  uint32_t soa[5] = {0, 0, 0, 0, 0};  // serial refresh retry expire minimum
  uint16_t pref = 0, weight = 0, port = 0;  // MX pref / SRV prio,weight,port / NAPTR order(pref),preference(weight)
  std::vector<std::string> strs;  // TXT chunks; NAPTR flags,services,regexp; CAA tag,value; HINFO
  uint8_t caa_flags = 0;
  std::vector<EdnsOpt> opts;  // OPT
  std::string raw;            // opaque rdata for unknown types
};

struct Msg {
  uint16_t id = 0;
  uint16_t flags = 0;  // full 16-bit flags word including opcode and rcode low 4 bits
  std::vector<Question> qd;
  std::vector<RR> an, ns, ar;
  int opcode() const { return (flags >> 11) & 0xf; }
  int rcode_lo() const { return flags & 0xf; }
  const RR *opt() const { for (auto &r : ar) if (r.type == T_OPT) return &r; return nullptr; }
  int rcode() const { const RR *o = opt(); return rcode_lo() | (o ? (int)((o->ttl >> 24) & 0xff) << 4 : 0); }
};

// Decode. Returns empty string on success, else a description of the malformation.
// Enforces: every compression pointer is in range and points strictly backwards
// to a label start that was itself reachable; names <= 255 octets; counts consistent;
// no trailing garbage is reported via *trailing (if non-null).
std::string decode(const std::string &wire, Msg &out, size_t *trailing = nullptr);
// Largest accepted wire length of a name (RFC 1035: 255). The virtual servers decode leniently and report longer names separately.
extern size_t g_max_name_octets;

struct EncodeOpts {
  bool compress = true;       // use compression pointers for owner names and rdata names
  size_t truncate_to = 0;     // if non-zero and message longer: drop RRs and set TC
};
std::string encode(const Msg &m, const EncodeOpts &o = EncodeOpts());

Name name_from_text(const std::string &dotted);  // understands \. and \DDD escapes
std::string name_to_text(const Name &n);          // escapes '.', '\\' and non-printables as \DDD
std::string name_lower(const std::string &text);
bool name_eq_ci(const Name &a, const Name &b);
bool name_eq_cs(const Name &a, const Name &b);

// Canonical textual dump used for equality checks (names lower-cased unless keep_case).
std::string dump_rr(const RR &r, bool keep_case = false, bool with_ttl = true);
std::string dump_msg(const Msg &m, bool keep_case = false, bool with_id = false, bool with_ttl = true, bool skip_cookie = true);

}  // namespace dnsref
