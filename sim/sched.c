/* Deterministic baton scheduler and pthread replacements.
 * NEVER compile this file with -fsanitize=thread: the baton hand-off must be invisible
 * to ThreadSanitizer so that it only sees the synchronisation the program itself performs
 * (the real pthread_mutex_lock/unlock/create/join calls forwarded from here). */
#define _GNU_SOURCE
#include "simsched.h"
#include <errno.h>
#include <stdio.h>
#include <stdlib.h>
#include <string.h>
#include <unistd.h>
#include <sys/syscall.h>
#include <linux/futex.h>
#include <time.h>

#define MAXT 64
#define MAXM 256
#define MAXD 200000

enum { ST_UNUSED = 0, ST_RUNNABLE, ST_BLOCKED, ST_DONE };

struct sthread {
  int id, state;
  int go;
  pthread_t real;
  void *(*fn)(void *);
  void *arg, *ret;
  sched_pred_t pred;
  void *pred_arg;
  int64_t deadline;
  int why, timed_out;
  int is_lib, joined;
  void *waiting_cond;
  int cond_woken;
  char name[24];
};
struct smutex { pthread_mutex_t *p; int owner; int count; };
struct scond { pthread_cond_t *p; };

static struct sthread T[MAXT];
static int nT;
static __thread int self_id = 0;
static int g_active;
static int g_current;
static struct smutex M[MAXM];
static struct sched_world_ops OPS;
static uint64_t g_rng[2];
static int g_policy, g_preempt;
static long g_steps, g_max_steps, g_switches;
static int *g_dec; static int g_ndec, g_dec_cap, g_dec_pos; static int g_replay;
static uint64_t g_dec_hash = 1469598103934665603ULL;
static int g_pct_prio[MAXT]; static long g_pct_change[8]; static int g_pct_nchange;

/* "slow machine" decisions: at a scheduling point the virtual clock may move forward a little although threads are runnable */
static int g_stall_permille; static int64_t g_stall_max_us; static uint64_t g_rng2[2]; static long g_stalls; static int64_t g_stall_total_us;
int sched_idle_jump = 0;   /* set while advance_to() is called because nothing is runnable */
static uint64_t rnd2(void) {
  uint64_t s1 = g_rng2[0], s0 = g_rng2[1];
  g_rng2[0] = s0; s1 ^= s1 << 23;
  g_rng2[1] = s1 ^ s0 ^ (s1 >> 17) ^ (s0 >> 26);
  return g_rng2[1] + s0;
}
void sched_set_stall(int permille, int64_t max_us) { g_stall_permille = permille; g_stall_max_us = max_us > 0 ? max_us : 1; }
static int g_spurious_permille; static long g_spurious;
void sched_set_spurious(int permille) { g_spurious_permille = permille; }
long sched_spurious_wakeups(void) { return g_spurious; }
long sched_stalls(void) { return g_stalls; }
int64_t sched_stall_total_us(void) { return g_stall_total_us; }
int64_t sched_thread_deadline(int tid) { return tid >= 0 && tid < nT ? T[tid].deadline : -1; }
int sched_thread_is_lib(int tid) { return tid >= 0 && tid < nT ? T[tid].is_lib : 0; }

int (*sched_thread_create_fault)(void) = 0;
int64_t (*sched_realtime_off)(void) = 0;

/* inline-thread bookkeeping for Mode A */
#define MAXINL 64
static struct { pthread_t id; void *ret; int used; } INL[MAXINL];
static unsigned long g_inl_ctr = 1000;
static int g_inl_unjoined;

static uint64_t rnd(void) {
  uint64_t s1 = g_rng[0], s0 = g_rng[1];
  g_rng[0] = s0; s1 ^= s1 << 23;
  g_rng[1] = s1 ^ s0 ^ (s1 >> 17) ^ (s0 >> 26);
  return g_rng[1] + s0;
}
static void fwait(int *w) {
  while (!__atomic_load_n(w, __ATOMIC_ACQUIRE)) syscall(SYS_futex, w, FUTEX_WAIT, 0, NULL, NULL, 0);
  __atomic_store_n(w, 0, __ATOMIC_RELAXED);
}
static void fwake(int *w) {
  __atomic_store_n(w, 1, __ATOMIC_RELEASE);
  syscall(SYS_futex, w, FUTEX_WAKE, 1, NULL, NULL, 0);
}

int sched_active(void) { return g_active; }
int sched_self(void) { return g_active ? self_id : 0; }
long sched_steps(void) { return g_steps; }
long sched_switches(void) { return g_switches; }
uint64_t sched_decision_hash(void) { return g_dec_hash; }
int sched_nthreads(void) { return nT; }
const char *sched_thread_name(int tid) { return tid >= 0 && tid < nT ? T[tid].name : "?"; }
int sched_thread_state(int tid) { if (tid < 0 || tid >= nT) return 2; return T[tid].state == ST_RUNNABLE ? 0 : T[tid].state == ST_BLOCKED ? 1 : 2; }
int sched_thread_why(int tid) { return tid >= 0 && tid < nT ? T[tid].why : 0; }
int sched_thread_done(int tid) { return tid >= 0 && tid < nT && T[tid].state == ST_DONE; }
int sched_unjoined_lib_threads(void) {
  int n = g_inl_unjoined;
  for (int i = 0; i < nT; i++) if (T[i].is_lib && !T[i].joined) n++;
  return n;
}

void sched_init(uint64_t seed, int policy, int preempt_permille, const struct sched_world_ops *ops, long max_steps) {
  memset(T, 0, sizeof T); memset(M, 0, sizeof M);
  nT = 1; T[0].id = 0; T[0].state = ST_RUNNABLE; snprintf(T[0].name, sizeof T[0].name, "main");
  self_id = 0; g_current = 0; g_active = 1;
  OPS = *ops;
  g_rng[0] = seed * 0x9E3779B97F4A7C15ULL + 1; g_rng[1] = seed ^ 0xD1B54A32D192ED03ULL;
  for (int i = 0; i < 8; i++) rnd();
  g_rng2[0] = seed * 0xD6E8FEB86659FD93ULL + 7; g_rng2[1] = seed ^ 0xA0761D6478BD642FULL;
  for (int i = 0; i < 8; i++) rnd2();
  g_stalls = 0; g_stall_total_us = 0; g_spurious = 0;
  g_policy = policy; g_preempt = preempt_permille;
  g_steps = 0; g_switches = 0; g_max_steps = max_steps;
  g_dec_cap = MAXD; g_dec = (int *)malloc(sizeof(int) * MAXD); g_ndec = 0; g_dec_pos = 0; g_replay = 0;
  for (int i = 0; i < MAXT; i++) g_pct_prio[i] = (int)(rnd() % 1000) + 1000;
  g_pct_nchange = policy == 1 ? 1 + (int)(rnd() % 4) : 0;
  for (int i = 0; i < g_pct_nchange; i++) g_pct_change[i] = (long)(rnd() % 3000);
}
void sched_set_decisions(const int *dec, int n) {
  if (n > g_dec_cap) n = g_dec_cap;
  memcpy(g_dec, dec, sizeof(int) * (size_t)n);
  g_ndec = n; g_dec_pos = 0; g_replay = 1;
}
int sched_get_decisions(int *out, int cap) {
  int n = g_replay ? g_dec_pos : g_ndec;
  if (n > cap) n = cap;
  memcpy(out, g_dec, sizeof(int) * (size_t)n);
  return n;
}

/* choose next thread to run; called by the baton holder */
static int choose(void) {
  int cand[MAXT]; int nc;
  if (g_stall_permille > 0 && (int)(rnd2() % 1000) < g_stall_permille) {
    /* the machine was slow: time passes although somebody could run */
    int64_t d = 1 + (int64_t)(rnd2() % (uint64_t)g_stall_max_us);
    g_stalls++; g_stall_total_us += d;
    OPS.advance_to(OPS.now() + d);
  }
  for (;;) {
    int64_t now = OPS.now();
    nc = 0;
    for (int i = 0; i < nT; i++) {
      struct sthread *t = &T[i];
      if (t->state == ST_BLOCKED) {
        if (t->pred && t->pred(t->pred_arg)) { t->state = ST_RUNNABLE; t->timed_out = 0; }
        else if (t->deadline >= 0 && t->deadline <= now) { t->state = ST_RUNNABLE; t->timed_out = 1; }
      }
    }
    /* current thread first when runnable */
    if (T[g_current].state == ST_RUNNABLE) cand[nc++] = g_current;
    for (int i = 0; i < nT; i++) if (i != g_current && T[i].state == ST_RUNNABLE) cand[nc++] = i;
    if (nc > 0) break;
    int64_t tmin = OPS.next_event();
    for (int i = 0; i < nT; i++) if (T[i].state == ST_BLOCKED && T[i].deadline >= 0 && (tmin < 0 || T[i].deadline < tmin)) tmin = T[i].deadline;
    if (tmin < 0) { OPS.quiescent(); _exit(3); }
    if (tmin < now) tmin = now;
    sched_idle_jump = 1;
    OPS.advance_to(tmin);
    sched_idle_jump = 0;
  }
  if (++g_steps > g_max_steps) { OPS.too_many_steps(); _exit(3); }
  if (nc == 1) return cand[0];
  int d;
  if (g_replay) {
    d = g_dec_pos < g_ndec ? g_dec[g_dec_pos] : 0;
    g_dec_pos++;
    if (d < 0) d = 0;
    d %= nc;
  } else {
    if (g_policy == 1) {
      /* PCT-like: highest priority runnable runs; priorities change at a few random steps */
      for (int i = 0; i < g_pct_nchange; i++) if (g_pct_change[i] == g_steps) g_pct_prio[g_current] = (int)(rnd() % 900);
      int best = 0;
      for (int i = 1; i < nc; i++) if (g_pct_prio[cand[i]] > g_pct_prio[cand[best]]) best = i;
      d = best;
    } else if (g_policy == 2) {
      d = (int)(rnd() % (uint64_t)nc);
    } else {
      int cur_runnable = cand[0] == g_current;
      if (cur_runnable && (int)(rnd() % 1000) >= g_preempt) d = 0;
      else d = cur_runnable ? 1 + (int)(rnd() % (uint64_t)(nc - 1)) : (int)(rnd() % (uint64_t)nc);
    }
    if (g_ndec < g_dec_cap) g_dec[g_ndec++] = d;
  }
  g_dec_hash = (g_dec_hash ^ (uint64_t)(d + 1) ^ ((uint64_t)nc << 8)) * 1099511628211ULL;
  return cand[d];
}

static void switch_to(int next, int wait_after) {
  int me = self_id;
  if (next == me) return;
  g_switches++;
  g_current = next;
  fwake(&T[next].go);
  if (wait_after) fwait(&T[me].go);
}

void sched_point(int why) {
  if (!g_active) return;
  (void)why;
  int next = choose();
  switch_to(next, 1);
}

int sched_wait(sched_pred_t pred, void *arg, int64_t deadline_us, int why) {
  if (!g_active) return pred ? pred(arg) : 0;
  struct sthread *t = &T[self_id];
  if (pred && pred(arg)) { sched_point(why); if (pred(arg)) return 1; }
  t->pred = pred; t->pred_arg = arg; t->deadline = deadline_us; t->why = why; t->timed_out = 0;
  t->state = ST_BLOCKED;
  for (;;) {
    int next = choose();
    switch_to(next, 1);
    if (t->state == ST_RUNNABLE) break;   /* choose() made us runnable and picked us (or handed back) */
  }
  t->pred = 0; t->why = 0;
  return t->timed_out ? 0 : 1;
}

static int pred_never(void *a) { (void)a; return 0; }
void sched_sleep_until(int64_t t) {
  if (!g_active) return;
  sched_wait(pred_never, 0, t, WHY_SLEEP);
}

static void *trampoline(void *a) {
  struct sthread *t = (struct sthread *)a;
  self_id = t->id;
  fwait(&t->go);
  t->ret = t->fn(t->arg);
  t->state = ST_DONE;
  int next = choose();
  g_switches++;
  g_current = next;
  fwake(&T[next].go);
  return t->ret;
}

static int spawn(void *(*fn)(void *), void *arg, const char *name, int is_lib) {
  if (nT >= MAXT) return -1;
  struct sthread *t = &T[nT];
  memset(t, 0, sizeof *t);
  t->id = nT; t->fn = fn; t->arg = arg; t->is_lib = is_lib; t->state = ST_RUNNABLE;
  snprintf(t->name, sizeof t->name, "%s", name);
  pthread_attr_t at; pthread_attr_init(&at); pthread_attr_setstacksize(&at, 1 << 20);
  if (pthread_create(&t->real, &at, trampoline, t) != 0) { pthread_attr_destroy(&at); return -1; }
  pthread_attr_destroy(&at);
  nT++;
  return t->id;
}
int sched_spawn(void *(*fn)(void *), void *arg, const char *name) {
  int id = spawn(fn, arg, name, 0);
  return id;
}
static int pred_done(void *a) { return ((struct sthread *)a)->state == ST_DONE; }
void sched_join_tid(int tid) {
  if (tid <= 0 || tid >= nT) return;
  sched_wait(pred_done, &T[tid], -1, WHY_JOIN);
  if (!T[tid].joined) { void *rv; pthread_join(T[tid].real, &rv); T[tid].joined = 1; }
}

/* ---- pthread replacements ---- */
int sim_pthread_create(pthread_t *out, const pthread_attr_t *a, void *(*fn)(void *), void *arg) {
  (void)a;
  if (sched_thread_create_fault) { int e = sched_thread_create_fault(); if (e) return e; }
  if (!g_active) {
    /* Mode A: run the thread function to completion inline (one legal schedule). */
    for (int i = 0; i < MAXINL; i++) if (!INL[i].used) {
      INL[i].used = 1; INL[i].id = (pthread_t)(g_inl_ctr++);
      *out = INL[i].id;
      g_inl_unjoined++;
      INL[i].ret = fn(arg);
      return 0;
    }
    return EAGAIN;
  }
  int id = spawn(fn, arg, "lib", 1);
  if (id < 0) return EAGAIN;
  *out = T[id].real;
  sched_point(WHY_START);
  return 0;
}
int sim_pthread_join(pthread_t t, void **rv) {
  if (!g_active) {
    for (int i = 0; i < MAXINL; i++) if (INL[i].used && pthread_equal(INL[i].id, t)) { if (rv) *rv = INL[i].ret; INL[i].used = 0; g_inl_unjoined--; return 0; }
    return ESRCH;
  }
  for (int i = 1; i < nT; i++) if (pthread_equal(T[i].real, t) && !T[i].joined) {
    sched_wait(pred_done, &T[i], -1, WHY_JOIN);
    T[i].joined = 1;
    return pthread_join(t, rv);
  }
  return ESRCH;
}

static struct smutex *mfind(pthread_mutex_t *p, int create) {
  struct smutex *freep = 0;
  for (int i = 0; i < MAXM; i++) { if (M[i].p == p) return &M[i]; if (!M[i].p && !freep) freep = &M[i]; }
  if (create && freep) { freep->p = p; freep->owner = 0; freep->count = 0; return freep; }
  return 0;
}
int sim_pthread_mutexattr_init(pthread_mutexattr_t *a) { return pthread_mutexattr_init(a); }
int sim_pthread_mutexattr_settype(pthread_mutexattr_t *a, int t) { return pthread_mutexattr_settype(a, t); }
int sim_pthread_mutexattr_destroy(pthread_mutexattr_t *a) { return pthread_mutexattr_destroy(a); }
int sim_pthread_mutex_init(pthread_mutex_t *m, const pthread_mutexattr_t *a) {
  if (g_active) { struct smutex *e = mfind(m, 1); if (e) { e->owner = 0; e->count = 0; } }
  return pthread_mutex_init(m, a);
}
int sim_pthread_mutex_destroy(pthread_mutex_t *m) {
  if (g_active) { struct smutex *e = mfind(m, 0); if (e) e->p = 0; }
  return pthread_mutex_destroy(m);
}
static int pred_mfree(void *a) { struct smutex *e = (struct smutex *)a; return e->owner == 0; }
static void sim_lock_only(struct smutex *e) {
  while (e->owner && e->owner != self_id + 1) sched_wait(pred_mfree, e, -1, WHY_MUTEX);
  e->owner = self_id + 1;
  e->count++;
}
int sim_pthread_mutex_lock(pthread_mutex_t *m) {
  if (!g_active) return pthread_mutex_lock(m);
  struct smutex *e = mfind(m, 1);
  sched_point(WHY_MUTEX);
  sim_lock_only(e);
  return pthread_mutex_lock(m);
}
int sim_pthread_mutex_unlock(pthread_mutex_t *m) {
  if (!g_active) return pthread_mutex_unlock(m);
  struct smutex *e = mfind(m, 1);
  if (e->owner == self_id + 1) { if (--e->count <= 0) { e->count = 0; e->owner = 0; } }
  int r = pthread_mutex_unlock(m);
  sched_point(WHY_MUTEX);
  return r;
}
int sim_pthread_cond_init(pthread_cond_t *c, const pthread_condattr_t *a) { return pthread_cond_init(c, a); }
int sim_pthread_cond_destroy(pthread_cond_t *c) { return pthread_cond_destroy(c); }
static void cond_wake(pthread_cond_t *c, int all) {
  for (int i = 0; i < nT; i++)
    if (T[i].state == ST_BLOCKED && T[i].waiting_cond == (void *)c && !T[i].cond_woken) {
      T[i].cond_woken = 1;
      if (!all) break;
    }
}
int sim_pthread_cond_signal(pthread_cond_t *c) {
  if (!g_active) return 0;
  cond_wake(c, 0);
  sched_point(WHY_COND);
  return 0;
}
int sim_pthread_cond_broadcast(pthread_cond_t *c) {
  if (!g_active) return 0;
  cond_wake(c, 1);
  sched_point(WHY_COND);
  return 0;
}
static int pred_woken(void *a) { return ((struct sthread *)a)->cond_woken; }
static int cond_wait_common(pthread_cond_t *c, pthread_mutex_t *m, int64_t deadline) {
  struct sthread *t = &T[self_id];
  struct smutex *e = mfind(m, 1);
  int saved = e->count;
  e->count = 0; e->owner = 0;
  for (int i = 0; i < saved; i++) pthread_mutex_unlock(m);
  t->waiting_cond = c; t->cond_woken = 0;
  int r;
  if (g_spurious_permille > 0 && (int)(rnd2() % 1000) < g_spurious_permille) {
    /* spurious wake-up (POSIX allows it): return without having been signalled */
    g_spurious++;
    sched_point(WHY_COND);
    r = 1;
  } else r = sched_wait(pred_woken, t, deadline, WHY_COND);
  t->waiting_cond = 0;
  sim_lock_only(e);
  e->count = saved;
  for (int i = 0; i < saved; i++) pthread_mutex_lock(m);
  return r ? 0 : ETIMEDOUT;
}
int sim_pthread_cond_wait(pthread_cond_t *c, pthread_mutex_t *m) {
  if (!g_active) { fprintf(stderr, "SIM-INFRA: pthread_cond_wait would block forever in single-threaded mode\n"); _exit(2); }
  return cond_wait_common(c, m, -1);
}
int sim_pthread_cond_timedwait(pthread_cond_t *c, pthread_mutex_t *m, const struct timespec *ts) {
  int64_t dl = (int64_t)ts->tv_sec * 1000000 + ts->tv_nsec / 1000;
  if (sched_realtime_off) dl -= sched_realtime_off();
  if (!g_active) return ETIMEDOUT;
  return cond_wait_common(c, m, dl);
}
