// Common small utilities for the simulator: PRNG, keyed hash, JSON writer.
#pragma once
#include <stdint.h>
#include <string>
#include <vector>
#include <map>
#include <string.h>
#include <stdio.h>

static inline uint64_t splitmix64(uint64_t &x) {
  uint64_t z = (x += 0x9E3779B97F4A7C15ULL);
  z = (z ^ (z >> 30)) * 0xBF58476D1CE4E5B9ULL;
  z = (z ^ (z >> 27)) * 0x94D049BB133111EBULL;
  return z ^ (z >> 31);
}

struct Rng {
  uint64_t s[4];
  explicit Rng(uint64_t seed = 1) { reseed(seed); }
  void reseed(uint64_t seed) {
    uint64_t x = seed;
    for (int i = 0; i < 4; i++) s[i] = splitmix64(x);
  }
  static inline uint64_t rotl(uint64_t x, int k) { return (x << k) | (x >> (64 - k)); }
  uint64_t next() {
    uint64_t result = rotl(s[1] * 5, 7) * 9;
    uint64_t t = s[1] << 17;
    s[2] ^= s[0]; s[3] ^= s[1]; s[1] ^= s[2]; s[0] ^= s[3];
    s[2] ^= t; s[3] = rotl(s[3], 45);
    return result;
  }
  // uniform in [0,n)
  uint64_t below(uint64_t n) { return n ? next() % n : 0; }
  // uniform in [lo,hi]
  int64_t range(int64_t lo, int64_t hi) { return lo + (int64_t)below((uint64_t)(hi - lo + 1)); }
  bool chance(double p) { return (double)(next() >> 11) * (1.0 / 9007199254740992.0) < p; }
  // weighted pick
  int pick(const std::vector<int> &w) {
    int64_t tot = 0;
    for (int x : w) tot += x;
    if (tot <= 0) return 0;
    int64_t r = (int64_t)below((uint64_t)tot);
    for (size_t i = 0; i < w.size(); i++) {
      if (r < w[i]) return (int)i;
      r -= w[i];
    }
    return (int)w.size() - 1;
  }
};

static inline uint64_t hash_bytes(uint64_t key, const void *p, size_t n) {
  const unsigned char *b = (const unsigned char *)p;
  uint64_t h = 0xcbf29ce484222325ULL ^ key;
  for (size_t i = 0; i < n; i++) { h ^= b[i]; h *= 0x100000001b3ULL; }
  uint64_t x = h;
  return splitmix64(x);
}
static inline uint64_t hash_mix(uint64_t a, uint64_t b) {
  uint64_t x = a ^ (b + 0x9E3779B97F4A7C15ULL + (a << 6) + (a >> 2));
  return splitmix64(x);
}
static inline uint64_t hash_str(uint64_t key, const std::string &s) { return hash_bytes(key, s.data(), s.size()); }

// ---- minimal JSON writer ----
struct JW {
  std::string s;
  std::vector<int> first;
  void sep() { if (!first.empty()) { if (!first.back()) s += ','; first.back() = 0; } }
  static std::string esc(const std::string &in) {
    std::string o;
    for (unsigned char c : in) {
      if (c == '"' || c == '\\') { o += '\\'; o += (char)c; }
      else if (c < 0x20 || c >= 0x7f) { char b[8]; snprintf(b, sizeof b, "\\u%04x", c); o += b; }
      else o += (char)c;
    }
    return o;
  }
  JW &obj() { sep(); s += '{'; first.push_back(1); return *this; }
  JW &arr() { sep(); s += '['; first.push_back(1); return *this; }
  JW &end_obj() { s += '}'; first.pop_back(); return *this; }
  JW &end_arr() { s += ']'; first.pop_back(); return *this; }
  JW &key(const char *k) { sep(); s += '"'; s += k; s += "\":"; first.back() = 1; return *this; }
  JW &val(const std::string &v) { sep(); s += '"'; s += esc(v); s += '"'; return *this; }
  JW &val(const char *v) { return val(std::string(v)); }
  JW &val(int64_t v) { sep(); s += std::to_string(v); return *this; }
  JW &val(uint64_t v) { sep(); s += std::to_string(v); return *this; }
  JW &val(int v) { return val((int64_t)v); }
  JW &val(unsigned v) { return val((int64_t)v); }
  JW &val(double v) { sep(); char b[64]; snprintf(b, sizeof b, "%.6g", v); s += b; return *this; }
  JW &val(bool v) { sep(); s += v ? "true" : "false"; return *this; }
  JW &raw(const std::string &v) { sep(); s += v; return *this; }
  template <class T> JW &kv(const char *k, const T &v) { key(k); return val(v); }
};

// ---- minimal JSON reader (objects, arrays, strings, ints, bools) ----
struct JV {
  enum T { NUL, BOOL, NUM, STR, ARR, OBJ } t = NUL;
  bool b = false;
  double num = 0;
  int64_t i = 0;
  std::string str;
  std::vector<JV> a;
  std::vector<std::pair<std::string, JV>> o;
  const JV *get(const char *k) const {
    for (auto &p : o) if (p.first == k) return &p.second;
    return nullptr;
  }
  int64_t geti(const char *k, int64_t d = 0) const { auto *v = get(k); return v && v->t == NUM ? v->i : (v && v->t == BOOL ? (int64_t)v->b : d); }
  std::string gets(const char *k, const std::string &d = "") const { auto *v = get(k); return v && v->t == STR ? v->str : d; }
};
bool json_parse(const std::string &text, JV &out);
std::string hexs(const std::string &bytes);
std::string unhex(const std::string &hex);
