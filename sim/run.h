// Run configuration, plan, application model, request ledger and the Mode-A engine.
#pragma once
#include "sim.h"
#include "profile.h"
#include "glue.h"
#include <ares.h>
#include <memory>

struct ServerSpec {
  std::string ip;
  int udp_port = 53, tcp_port = 53;
  int cookie_mode = 0;
  bool tcp_refuse = false, tcp_blackhole = false;
  std::string iface;   // link-local interface name ("" none)
};

struct RunCfg {
  std::string profile;
  uint64_t seed = 0;
  int mode = 0;                 // 0 = Mode A, 1 = Mode B
  // channel options (-1 / empty = not set by the application)
  int flags = -1;
  int tries = -1, timeout_ms = -1, maxtimeout_ms = -1;
  int rotate = -1;              // -1 unset, 0 NOROTATE, 1 ROTATE
  int udp_max_queries = -1, ndots = -1;
  int set_domains = 0; std::vector<std::string> domains;
  std::string lookups;          // "" unset
  int qcache_max_ttl = -1;      // -1 unset (library default 3600)
  int retry_chance = -1, retry_delay = -1;
  int ednspsz = -1;
  std::string sortlist;
  int sndbuf = -1, rcvbuf = -1;
  int loop_style = 0;           // 0 process_fds via sock_state_cb; 1 ares_fds+ares_process; 2 getsock+process_fd
  int pending_write_cb = 0;
  int sockfuncs = 0;            // 0 default (libc redirected), 1 custom via ares_set_socket_functions_ex, 2 custom w/o getsockname, 3 custom flagged blocking
  int tfo = 0;
  int evsys = 0;                // Mode B: 0 default(epoll) 2 epoll 4 poll 5 select
  int server_source = 0;        // 0 csv, 1 legacy options (ipv4, port 53), 2 resolv.conf
  std::vector<ServerSpec> servers;
  std::string resolv_conf, hosts_file, nsswitch, hostaliases;
  std::map<std::string, std::string> env;
  std::string local_dev; uint32_t local_ip4 = 0; bool local_ip6 = false;
  int sock_create_cb = 0, sock_config_cb = 0;   // 1 = registered, 2 = registered and fails on n-th call
  std::vector<int> beh_w, zone_w;
  int64_t min_delay = 200, max_delay = 40000;
  int64_t t0_us = 1000000000;
  int faults = 1;
  int allow_cancel_in_cb = 0;
  int use_tokens = 1;
  int nthreads = 0;             // Mode B caller threads
  int sched_policy = 0, sched_preempt = 50;
  Profile prof;
  std::vector<std::string> names;     // base-name pool
  std::vector<int> qtypes;            // qtype pool
  std::map<std::string, int64_t> ov;  // overrides applied from a replay file
  std::map<std::string, int64_t> knobs;  // profile-specific integer knobs (serialised)
  int64_t knob(const char *k, int64_t d = 0) const { auto it = knobs.find(k); return it == knobs.end() ? d : it->second; }
  std::string dump() const;           // JSON (complete)
  bool load(const JV &v);             // from JSON
};

enum StepKind {
  S_REQ = 1, S_ADV, S_STALL, S_CANCEL, S_NETOP, S_FAULT, S_FORGE, S_SETSRV, S_REINIT, S_CHUNK, S_PARTITION, S_SRCADDR,
  S_COOKIECTL, S_FILE, S_INOTIFY, S_WAITEMPTY, S_THINK, S_DUP, S_SAVEOPT, S_CSVROUND, S_SORTLIST, S_LOCAL, S_QUERYINFO, S_HEAL, S_ZERODGRAM, S_NKINDS
};
extern const char *step_name[S_NKINDS];
struct Step { int k = 0; int64_t a = 0, b = 0, c = 0, d = 0; int thr = 0; };

enum ReqKind { K_SEND_DNSREC = 0, K_SEND, K_QUERY_DNSREC, K_QUERY, K_SEARCH_DNSREC, K_SEARCH, K_GETADDRINFO, K_GETHOSTBYNAME, K_GETHOSTBYADDR, K_GETNAMEINFO, K_NKINDS };
extern const char *req_kind_name[K_NKINDS];
enum Reaction { R_NONE = 0, R_NEWREQ, R_CANCEL, R_TIMEOUTQ, R_ACTIVEQ, R_NREACT };

struct Delivered {
  bool has = false;
  dnsref::Msg msg;                 // for record / legacy-buffer callbacks
  std::string decode_err;          // legacy buffer failed to decode with the reference codec
  std::vector<std::pair<std::string, int>> addrs;   // (addr bytes, ttl) from addrinfo / hostent (ttl -1 if n/a)
  std::vector<int> ports;
  std::string canon;               // addrinfo->name / hostent h_name
  std::vector<std::string> aliases;
  std::vector<std::pair<std::string, std::string>> cnames;  // alias -> name
  std::vector<int> cname_ttls;
  std::vector<std::pair<std::string, int>> addrttls;        // ares_parse_a_reply-style (via hostent + addrttl) if used
  std::string node, service;       // nameinfo
};

struct Req {
  int token = -1, kind = 0, chan = 0;
  std::string name;       // full name handed to the API
  int qtype = 1, qclass = 1;
  int family = 0, port = 0, ai_flags = 0;
  int reaction = 0; int react_kind = 0;
  bool from_callback = false;
  bool accepted = false; int api_ret = 0;
  int cb_count = 0, status = -1, timeouts = 0;
  int64_t t_submit = 0, t_done = -1;
  bool done_sync = false;          // completed before the accepting call returned
  bool cb_after_destroy = false;
  int tx_at_submit = 0, tx_at_done = -1;
  int thread = 0;
  std::string addr_bytes;          // reverse lookups
  Delivered got;
  std::vector<uint32_t> markers;
  bool in_call = false;
  int rd = 1, cd = 0;
};

struct Violation {
  std::string prop, oracle, detail;
  std::string sig() const { return prop + ":" + oracle; }
};

struct Run;
struct CbArg { Run *run; int token; };
struct Chan {
  ares_channel_t *ch = nullptr;
  bool alive = false, destroying = false;
  std::map<int, std::pair<int, int>> interest;   // fd -> (read, write) from sock_state_cb
  std::map<int, int> ever_announced;             // fd -> nonzero announced at some point
  std::map<int, int> final_zero;                 // fd -> number of (0,0) notifications after a non-zero one
  int pending_write = 0;
  int idx = 0;
};

struct Run {
  RunCfg cfg;
  std::vector<Step> plan;
  std::vector<Chan> chans;
  std::vector<Req> reqs;
  std::vector<std::unique_ptr<CbArg>> cbargs;
  std::vector<Violation> viol;
  std::map<std::string, int64_t> probe;
  Rng aux;
  int steps_done = 0;
  bool drained = false;
  bool destroyed_all = false;
  int64_t faults_stopped_at = -1;
  // allocator ledger
  // server-state callback stream
  struct SrvEv { int64_t t; std::string server; int ok; int flags; int api_seq; uint32_t seq; };
  std::vector<SrvEv> srv_events;
  struct SockEv { int64_t t; int fd; int r, w; uint32_t seq; bool fd_open; };
  std::vector<SockEv> sock_events;
  int sock_create_calls = 0, sock_config_calls = 0;
  std::function<void(Run &, const Step &)> extra_step;     // profile-specific step handler
  std::function<void(Run &)> after_step;                   // profile-specific invariant
  std::function<void(Run &)> at_end;                       // profile-specific history oracle
  std::function<void(Run &)> before_destroy;               // runs after the drain, while the channel still exists
  std::vector<std::function<void(Run &)>> world_ready;     // called once the world has been reset and configured
  std::function<void(Run &, Req &)> on_done;               // profile-specific per-completion oracle
  std::function<bool(Run &, const Step &)> pre_req;          // may take over an S_REQ step (returns true if it did)
  int max_tries_seen = 0;
  std::vector<std::function<void(Run &, Tx &)>> tx_obs;     // observers of every transmission at the virtual servers
  std::vector<int> active;                                  // indices into cfg.servers currently configured on the channel
  int eff_tries = 3, eff_timeout_ms = 2000, eff_maxtimeout_ms = 0, max_active = 0, eff_ndots = 1, eff_rotate = 0;
  struct ListEv { int64_t t; int kind; uint32_t seq; };      // kind 0 same list, 1 changed list, 2 reinit
  std::vector<ListEv> srv_list_events;
  struct ActiveEv { uint32_t seq; std::vector<int> list; uint32_t end_seq = 0; std::string got_csv; bool applied = false; };
  std::vector<std::pair<int64_t, int64_t>> stalls;          // (from, to) virtual-clock jumps during which the application did not run its loop
  struct CookieCtl { int64_t t; int server; int on; };
  std::vector<CookieCtl> cookie_ctl;
  std::vector<ActiveEv> active_hist;
  int settled_outstanding = 0, settled_zero_transitions = 0;   // requests whose accepting call has returned and that have no callback yet; times that count fell to zero
  std::vector<std::pair<uint32_t, int64_t>> proc_calls;    // (call-log sequence, time) at the start of every ares_process* call (each ends with a timer pass)
  std::map<std::string, std::string> user_set_later;       // settings made through setters after init (key as in the white-box read), e.g. sortlist
  bool user_set_servers = false;                            // the application has set the server list explicitly (init option or setter)
  int files_variant = 0; bool files_changed_since_init = false;   // C16: which rewrite of the system files is on the virtual disk                        // configured server list (indices, configuration order) over time
  int pick_kind(int64_t a) const;
  void read_effective();
  void set_servers_variant(int variant);
  void do_reinit(int chan);

  explicit Run(const RunCfg &c) : cfg(c), aux(c.seed ^ 0x1234567) { chans.reserve(16); reqs.reserve(512); }
  void setup_world();
  bool make_channel(int idx = 0);
  void execute();             // Mode A: run the plan, drain, destroy, oracles
  void exec_step(const Step &s);
  void drain(int max_steps);
  void destroy_all();
  void final_oracles();
  // app ops
  int submit(int kind, int name_sel, int type_sel, int reaction, int react_kind, bool from_cb, int chan = 0, int fam_sel = 0);
  void complete(int token, int status, int timeouts, Delivered &d);
  void do_cancel(int chan);
  void process_ready(int chan, int subset_sel, bool skip_non_fd = false);
  bool ready_now(int chan);
  int64_t hint_time(int chan);   // absolute time of ares_timeout() hint or -1
  void check_invariants(const char *where);
  void violate(const char *prop, const char *oracle, const std::string &detail);
  int outstanding(int chan = -1) const;
  std::string compose_name(int token, int name_sel, int kind);
  void note(const std::string &k, int64_t n = 1) { probe[k] += n; }
};

extern Run *g_run;
std::string servers_csv(const std::vector<ServerSpec> &all, const std::vector<int> &idx);

// white-box reads (peek.c)
extern "C" {
int peek_earliest_deadline(const ares_channel_t *ch, long long *us_out);
size_t peek_timeout_index_len(const ares_channel_t *ch);
size_t peek_all_queries_len(const ares_channel_t *ch);
int peek_available(void);
int peek_expired_in_index(const ares_channel_t *ch, long long now_us);
int peek_conn_count(const ares_channel_t *ch);
struct peek_qinfo { unsigned short qid; long long ts_us; long long deadline_us; unsigned long try_count; int using_tcp; int server_idx; int no_retries; };
int peek_queries(const ares_channel_t *ch, struct peek_qinfo *out, int cap);
size_t peek_num_servers(const ares_channel_t *ch);
int peek_channel_opts(const ares_channel_t *ch, long *tries, long *timeout_ms, long *maxtimeout_ms, long *ndots, long *rotate);
size_t peek_full(const ares_channel_t *ch, char *out, size_t cap);
int peek_reinit_pending(const ares_channel_t *ch);
}

// allocator ledger
struct AllocLedger {
  struct Blk { size_t size; long index; void *bt[10]; int nbt; };
  std::map<void *, Blk> live;
  long calls = 0, fail_at = -1, failed = 0, bad_free = 0;
  bool active = false;
  std::string fail_site;      // c-ares frames of the call stack at which the injected failure was delivered
  void reset() { live.clear(); calls = 0; fail_at = -1; failed = 0; bad_free = 0; fail_site.clear(); }
};
extern AllocLedger g_alloc;
void alloc_install();

// profiles
void profile_make_cfg(const std::string &prof, uint64_t seed, RunCfg &cfg);
void profile_make_plan(const RunCfg &cfg, std::vector<Step> &plan);
void profile_attach(Run &r);     // installs profile-specific oracles
bool profile_known(const std::string &prof);
