// Core declarations of the deterministic simulator ("world" = virtual kernel + network + servers).
#pragma once
#include <stdint.h>
#include <string>
#include <vector>
#include <deque>
#include <map>
#include <set>
#include <functional>
#include <sys/socket.h>
#include <netinet/in.h>
#include "util.h"
#include "dnsref.h"

// ---------- addresses ----------
struct Addr {
  int family = 0;          // AF_INET / AF_INET6 / 0
  uint8_t a[16] = {0};
  uint16_t port = 0;       // host order
  uint32_t scope = 0;
  bool same_ip(const Addr &o) const { return family == o.family && !memcmp(a, o.a, family == AF_INET ? 4 : 16); }
  bool operator==(const Addr &o) const { return same_ip(o) && port == o.port; }
  std::string str() const;
  std::string ipstr() const;
};
Addr addr_from_sockaddr(const struct sockaddr *sa, socklen_t len);
socklen_t addr_to_sockaddr(const Addr &a, struct sockaddr *sa, socklen_t cap);
Addr addr_parse(const std::string &ip, uint16_t port);

// ---------- faults ----------
enum FaultClass {
  FC_SOCKET = 0, FC_SETSOCKOPT, FC_BIND, FC_CONNECT, FC_GETSOCKNAME, FC_SEND, FC_RECV, FC_WAIT, FC_FOPEN, FC_FREAD, FC_THREAD, FC_NCLASSES
};
extern const char *fault_class_name[FC_NCLASSES];
struct Fault {
  int cls = 0;
  int err = 0;        // errno to return (or special, see below)
  int mode = 0;       // 0 = return -1/errno; 1 = short count (param bytes); 2 = return 0 (orderly close / zero-length dgram)
  int param = 0;
  int fd = -1;        // -1 = any descriptor
  int scope = 0;      // 0 = anywhere; 1 = only while inside a completion callback; 2 = only on tcp; 3 = only on udp
  int remaining = 1;  // how many times it fires
  int id = 0;
};

// ---------- descriptors ----------
enum FdKind { FD_NONE = 0, FD_UDP, FD_TCP, FD_PIPE_R, FD_PIPE_W, FD_EPOLL, FD_INOTIFY };
enum TcpState { TS_CREATED = 0, TS_CONNECTING, TS_ESTABLISHED, TS_FAILED };

struct Dgram { std::string data; Addr src; int resp_id = -1; };

struct VFd {
  int fd = -1;
  int gen = 0;                // unique per socket object (descriptor numbers may be reused in fd_reuse mode)
  FdKind kind = FD_NONE;
  bool open = false;
  bool ever_open = false;
  int family = 0;
  bool nonblock = false;
  int owner_chan = -1;
  // sockets
  bool connected = false;
  Addr peer, local;
  bool bound = false;
  std::deque<Dgram> inq;
  TcpState tstate = TS_CREATED;
  int so_error = 0;           // pending error to report on next I/O (ECONNREFUSED, ECONNRESET...)
  std::string instream;       // bytes readable now
  uint64_t in_added = 0, in_read = 0;
  std::deque<std::pair<uint64_t, int>> in_marks;   // (cumulative end offset, resp id) of frames appended to instream
  bool peer_closed = false;   // orderly close after instream drained
  bool tfo = false;           // TCP_FASTOPEN_CONNECT accepted
  int server_idx = -1;
  int tcp_conn_id = -1;       // id of server-side connection record
  std::string srv_accum;      // bytes the server has received but not yet framed
  bool srv_blackhole = false; // connect never completes
  int64_t connect_done_at = -1;
  std::deque<int> recv_chunks;   // per-recv max sizes (TCP); empty => unlimited
  std::deque<int> send_windows;  // per-send acceptance (TCP); 0 => EAGAIN; empty => unlimited
  bool default_chunking = false; int chunk_seed = 0;  // profile-driven chunking
  int n_send_ok = 0;          // datagrams / send calls accepted
  int n_send_calls = 0;       // send calls attempted (including failed ones)
  int flush_api_seq = -1;    // UDP: top-level call in which a datagram deferred by EAGAIN finally left (others sent in that call may have been queued behind it)
  std::vector<std::pair<uint64_t, uint32_t>> eagain_payloads;   // UDP (payload hash, call seq) refused with EAGAIN: still in the library's out-buffer
  int n_calls_after_close = 0;
  int close_count = 0;
  // pipe
  int pipe_peer = -1;
  std::string pipebuf;
  // epoll: fd -> events mask
  std::map<int, uint32_t> interest;
  // inotify
  std::string inbuf;
  // bookkeeping for oracles
  int64_t opened_at = 0, closed_at = -1;
  bool write_blocked = false;  // last send returned EAGAIN/short and nothing flushed since
};

// ---------- call log ----------
enum CallId {
  C_SOCKET = 1, C_SETSOCKOPT, C_BIND, C_CONNECT, C_GETSOCKNAME, C_SEND, C_SENDTO, C_RECVFROM, C_CLOSE, C_FCNTL,
  C_READ, C_WRITE, C_PIPE2, C_EPOLL_CREATE, C_EPOLL_CTL, C_EPOLL_WAIT, C_POLL, C_SELECT, C_INOTIFY_INIT, C_INOTIFY_ADD,
  C_FOPEN, C_FREAD, C_FCLOSE, C_STAT, C_GETENV, C_THREAD_CREATE, C_THREAD_JOIN, C_SOCKSTATE_CB, C_SERVERSTATE_CB, C_USER_CB, C_API
};
struct CallRec { uint32_t seq; int tid; int call; int fd; long res; int err; long a, b; int64_t t; };

// ---------- network ----------
enum FlightKind { FL_DGRAM = 1, FL_TCP_BYTES, FL_TCP_CONNECTED, FL_TCP_REFUSED, FL_TCP_CLOSE, FL_TCP_RESET, FL_INOTIFY };
struct Flight {
  int id = 0;
  int kind = 0;
  int64_t at = 0;
  int fd = -1;
  std::string data;
  Addr src;
  int resp_id = -1;
  bool done = false;
  int gen = 0;                // generation of the target descriptor when the packet was sent
};

// A transmission observed at a virtual server (one UDP datagram or one TCP frame).
struct Tx {
  int id = 0;
  int64_t t = 0;
  int fd = -1;
  int server = -1;       // index into world servers (-1 unknown destination)
  bool tcp = false;
  std::string wire;
  dnsref::Msg msg;
  std::string decode_err;
  size_t trailing = 0;     // bytes after the end of the message (same frame / datagram)
  int token = -1;        // request token parsed from the qname (or -1)
  std::string qname_lc;  // lower-case text of first question
  int api_seq = 0;       // sequence number of the top-level library call in progress
  uint32_t seq = 0;      // call-log sequence number at the instant of the transmission
  std::string src_ip;    // local address of the sending socket
  int cb_depth = 0;      // >0 when sent from inside a completion callback
  int attempt = 0;       // per (server,question) attempt counter
  int behaviour = -1;    // server behaviour chosen
  std::vector<int> resp_ids;
  size_t stream_off = 0; // TCP: offset of frame in the connection's byte stream
  bool order_unknown = false; // UDP: left in the same call as a deferred datagram of this socket; when the library queued it is not observable
  bool deferred = false; // UDP: this datagram was first refused with EAGAIN and went out later from the library's buffer
  uint32_t lseq = 0;     // call-log sequence number of the send attempt this datagram belongs to (= seq unless deferred)
};

// A response (or forged packet) produced by the simulator.
struct Resp {
  int id = 0;
  int tx = -1;            // which transmission it answers (-1 forged w/o tx)
  int server = -1;
  bool tcp = false;
  bool forged = false;
  int defect = 0;         // bitmask of what makes it unacceptable (DEF_*)
  int64_t sent_at = 0, arrive_at = 0;
  int fd = -1;            // socket it is delivered to
  Addr src;
  std::string wire;
  dnsref::Msg msg;
  int rcode = 0;
  bool tc = false;
  bool has_cookie = false, has_server_cookie = false;
  std::vector<uint32_t> markers;   // marker ids embedded in the message
  std::vector<std::pair<std::string, uint32_t>> addrs;  // (addr bytes, ttl) of A/AAAA in the answer section
  uint32_t min_ttl = 0;
  bool delivered_to_socket = false;
  int64_t delivered_at = -1;
  std::vector<int64_t> read_times;   // instants at which the library read this response from a socket
  std::vector<uint32_t> read_seqs;   // call-log sequence numbers of those reads
  std::vector<int> read_api;         // top-level library call (api_seq) in which each read happened
  int forge_variant = -1;
  bool tainted = false;              // corrupted in flight by a network fault: content no longer attributable
  int acceptable = -1;               // evaluated at arrival: 1 = satisfies every acceptance condition, 0 = does not, -1 = not evaluated
  std::string unacceptable_why;
};

enum Defect {
  DEF_WRONG_ID = 1, DEF_WRONG_SOCKET = 2, DEF_WRONG_SRC = 4, DEF_WRONG_QNAME = 8, DEF_WRONG_QTYPE = 16, DEF_WRONG_QCLASS = 32,
  DEF_WRONG_QCOUNT = 64, DEF_WRONG_CASE = 128, DEF_BAD_COOKIE = 256, DEF_STALE = 512, DEF_GARBAGE = 1024, DEF_NO_COOKIE = 2048
};

// Server behaviours (per attempt)
enum Beh {
  B_ANSWER = 0, B_SERVFAIL, B_REFUSED, B_NOTIMP, B_FORMERR_NOOPT, B_FORMERR_OPT, B_TC, B_SILENT, B_LATE, B_DUP, B_GARBAGE,
  B_BADCOOKIE, B_TCP_RESET, B_TCP_CLOSE, B_WRONGID, B_NBEH
};
extern const char *beh_name[B_NBEH];

// Zone outcome per (name,type)
enum ZoneOut { Z_DATA = 0, Z_NODATA, Z_NXDOMAIN, Z_CNAME_ONLY, Z_NZ };

struct ServerCfg {
  Addr addr;          // ip; port = udp port
  uint16_t tcp_port = 53;
  int cookie_mode = 0;   // see CookieMode
  bool tcp_refuse = false, tcp_blackhole = false;
  bool partitioned = false;
  int64_t partition_until = -1;
};
enum CookieMode { CK_NONE = 0, CK_GOOD, CK_CHANGING, CK_WRONG_CLIENT, CK_SHORT, CK_LONG, CK_BADCOOKIE_ONCE, CK_BADCOOKIE_ALWAYS, CK_BADCOOKIE_NOCOOKIE, CK_REGRESS, CK_NMODES };

struct ServerState {
  ServerCfg cfg;
  std::map<std::string, int> attempts;   // question key -> attempts seen
  int queries = 0;
  // cookie state
  std::string server_cookie;             // current server cookie handed out
  int cookie_epoch = 0;
  int badcookie_sent = 0;
  bool regress_active = false;           // CK_REGRESS: currently not sending cookies
  std::map<int, size_t> tcp_stream_len;  // conn id -> bytes seen
};

struct Profile;  // per-property knobs (profile.h)

// ---------- the world ----------
struct World {
  // time
  int64_t now_us = 0;           // CLOCK_MONOTONIC
  int64_t realtime_off_us = 0;  // REALTIME = now + off
  // ids
  uint64_t run_seed = 0;
  uint64_t beh_key = 0, zone_key = 0, rng_key = 0;
  uint64_t rng_ctr = 0;
  unsigned htable_seed_ctr = 0;
  // descriptors
  std::map<int, VFd> fds;
  int next_fd = 300;
  bool next_tx_deferred = false; uint32_t next_tx_lseq = 0;
  bool next_tx_order_unknown = false;   // UDP: sent in the same call right after a deferred datagram on the same socket: may have been queued behind it
  bool tc_keeps_negative = false;   // a truncated negative answer keeps its authority section (SOA): cacheable if the TC bit were ignored (C08)
  bool fd_reuse = false;       // POSIX lowest-free-number allocation (default: numbers are never reused, which keeps descriptor identity trivial for the C10 oracles)
  int gen_ctr = 0;
  std::vector<VFd> graveyard;  // closed descriptors whose number has been handed out again
  std::vector<Fault> faults;
  int fault_ids = 0;
  std::map<int, int> fault_armed, fault_fired;  // per class
  // log
  std::vector<CallRec> calls;
  uint32_t seq = 0;
  uint64_t trace_hash = 1469598103934665603ULL;
  uint64_t shape_hash = 1469598103934665603ULL;
  bool log_calls = true;
  // files & env
  std::map<std::string, std::string> files;
  std::map<std::string, int64_t> file_mtime;
  std::map<std::string, std::string> env;
  std::string hostname = "simhost.sim.test";
  // network
  std::vector<ServerState> servers;
  std::vector<Flight> flights;
  std::vector<Tx> txs;
  std::vector<Resp> resps;
  std::map<uint32_t, int> marker_resp;   // marker id -> resp id
  uint32_t next_marker = 1;
  int tcp_conn_ids = 0;
  Addr client_ip4, client_ip6;
  int api_seq = 0;        // bumped by the app model on each top-level library call
  int cb_depth = 0;       // completion-callback nesting depth
  // behaviour
  const Profile *prof = nullptr;
  std::vector<int> beh_weights;     // size B_NBEH
  std::vector<int> zone_weights;    // size Z_NZ
  int64_t min_delay_us = 200, max_delay_us = 40000;
  bool faults_enabled = true;
  std::vector<std::string> protocol_violations;  // C10: calls on closed fds etc.
  // hooks for oracles (set by the run)
  std::function<void(Tx &)> on_tx;
  std::function<void(Resp &)> on_resp_built;
  std::function<void(Resp &, VFd &)> on_read;      // the library read this (UDP) response from a socket: acceptability is judged at this instant
  std::function<void(Resp &, VFd &)> on_arrival;   // a response reached a client socket (acceptability is judged here)
  std::function<int(const Tx &)> beh_override;   // return -1 for default
  // stats
  std::map<std::string, int64_t> stat;
  bool file_io_yields = false;   // Mode B: opening a virtual file is a scheduling point
  void bump(const std::string &k, int64_t n = 1) { stat[k] += n; }

  void reset(uint64_t seed);
  // descriptors
  VFd *get(int fd);
  VFd &alloc(FdKind k);
  void log(int call, int fd, long res, int err, long a = 0, long b = 0);
  void mix(uint64_t v) { trace_hash = (trace_hash ^ v) * 1099511628211ULL; }
  void mix_shape(uint64_t v) { shape_hash = (shape_hash ^ v) * 1099511628211ULL; }
  // faults
  int arm(const Fault &f);
  bool take_fault(int cls, int fd, Fault &out);
  // network
  int find_server(const Addr &dst, bool tcp) const;
  void client_send_dgram(VFd &s, const std::string &data);
  void client_send_stream(VFd &s, const std::string &data);
  void server_handle(VFd &s, bool tcp, const std::string &wire, size_t stream_off);
  int add_flight(int kind, int64_t at, int fd, const std::string &data, const Addr &src, int resp_id);
  int64_t next_flight_time() const;       // -1 if none
  void deliver_due();                     // deliver all flights with at <= now
  void deliver_flight(Flight &f);
  // readiness
  bool readable(const VFd &f) const;
  bool writable(const VFd &f) const;
  bool errored(const VFd &f) const;
  std::vector<int> open_sockets() const;
  // response construction
  Resp &new_resp();
  uint32_t new_marker(int resp_id);
  int zone_outcome(const dnsref::Name &name, int qtype) const;   // Z_* for (name, type): pure function of the run's zone key
  void inotify_event(const std::string &name);
  // attacker: build a would-be-valid answer to transmission T, spoil it according to 'variant', deliver it to socket fd
  int forge_response(const Tx &T, int variant, int fd, int64_t at, uint64_t salt);
  void set_file(const std::string &path, const std::string &content);
  void remove_file(const std::string &path);
};
extern World W;

// current thread id for logs (0 in Mode A)
extern "C" int sim_tid(void);

// Parse "tNNN" token label from a qname; -1 if none.
int token_of_name(const dnsref::Name &n);
std::string strip_token(const dnsref::Name &n);  // lower-case text without the token label
