#include "dnsref.h"
#include <map>
#include <ctype.h>
#include <stdio.h>
#include <string.h>

namespace dnsref {

size_t g_max_name_octets = 255;

namespace {

struct Rd {
  const std::string &w;
  size_t pos = 0;
  std::string err;
  explicit Rd(const std::string &s) : w(s) {}
  bool need(size_t n) {
    if (pos + n > w.size()) { if (err.empty()) err = "short read at " + std::to_string(pos); return false; }
    return true;
  }
  uint8_t u8() { if (!need(1)) return 0; return (uint8_t)w[pos++]; }
  uint16_t u16() { if (!need(2)) return 0; uint16_t v = (uint16_t)(((uint8_t)w[pos] << 8) | (uint8_t)w[pos + 1]); pos += 2; return v; }
  uint32_t u32() { uint32_t a = u16(); uint32_t b = u16(); return (a << 16) | b; }
  std::string bytes(size_t n) { if (!need(n)) return ""; std::string s = w.substr(pos, n); pos += n; return s; }

  // Parse a possibly compressed name starting at pos; advances pos past the
  // in-place part. limit = end of region the in-place part may occupy.
  bool name(Name &out, size_t limit) {
    out.clear();
    size_t p = pos;
    size_t lowest = pos;  // every pointer must go strictly below the lowest start seen so far
    bool jumped = false;
    size_t total = 0;
    int hops = 0;
    while (true) {
      if (p >= w.size() || (!jumped && p >= limit)) { err = "name runs past end at " + std::to_string(p); return false; }
      uint8_t c = (uint8_t)w[p];
      if ((c & 0xC0) == 0xC0) {
        if (p + 1 >= w.size() || (!jumped && p + 1 >= limit)) { err = "truncated pointer at " + std::to_string(p); return false; }
        size_t tgt = (size_t)((c & 0x3F) << 8) | (uint8_t)w[p + 1];
        if (tgt >= lowest) { err = "pointer at " + std::to_string(p) + " does not point backwards (target " + std::to_string(tgt) + ")"; return false; }
        if (tgt < 12) { err = "pointer at " + std::to_string(p) + " into header (target " + std::to_string(tgt) + ")"; return false; }
        if (!jumped) { pos = p + 2; jumped = true; }
        lowest = tgt;
        p = tgt;
        if (++hops > 128) { err = "too many pointer hops"; return false; }
        continue;
      }
      if (c & 0xC0) { err = "bad label type at " + std::to_string(p); return false; }
      if (c == 0) { if (!jumped) pos = p + 1; break; }
      if (p + 1 + c > w.size() || (!jumped && p + 1 + c > limit)) { err = "label runs past end at " + std::to_string(p); return false; }
      out.push_back(w.substr(p + 1, c));
      total += 1 + (size_t)c;
      if (total + 1 > g_max_name_octets) { err = "name longer than 255 octets"; return false; }
      p += 1 + (size_t)c;
    }
    return true;
  }
};

bool parse_rr(Rd &r, RR &rr, bool is_question_section) {
  (void)is_question_section;
  if (!r.name(rr.name, r.w.size())) return false;
  rr.type = r.u16();
  rr.klass = r.u16();
  rr.ttl = r.u32();
  uint16_t rdlen = r.u16();
  if (!r.err.empty()) return false;
  if (!r.need(rdlen)) { r.err = "rdata runs past end"; return false; }
  size_t end = r.pos + rdlen;
  auto nm = [&](Name &n) { return r.name(n, end); };
  switch (rr.type) {
    case T_A:
      if (rdlen != 4) { r.err = "A rdlength != 4"; return false; }
      rr.addr = r.bytes(4);
      break;
    case T_AAAA:
      if (rdlen != 16) { r.err = "AAAA rdlength != 16"; return false; }
      rr.addr = r.bytes(16);
      break;
    case T_NS: case T_CNAME: case T_PTR:
      if (!nm(rr.target)) return false;
      break;
    case T_MX:
      rr.pref = r.u16();
      if (!nm(rr.target)) return false;
      break;
    case T_SOA:
      if (!nm(rr.target)) return false;
      if (!nm(rr.rname)) return false;
      for (int i = 0; i < 5; i++) rr.soa[i] = r.u32();
      break;
    case T_SRV:
      rr.pref = r.u16(); rr.weight = r.u16(); rr.port = r.u16();
      if (!nm(rr.target)) return false;
      break;
    case T_TXT:
      while (r.pos < end && r.err.empty()) { uint8_t l = r.u8(); if (r.pos + l > end) { r.err = "TXT chunk overruns rdata"; return false; } rr.strs.push_back(r.bytes(l)); }
      break;
    case T_HINFO:
      for (int i = 0; i < 2 && r.err.empty(); i++) { uint8_t l = r.u8(); if (r.pos + l > end) { r.err = "HINFO overrun"; return false; } rr.strs.push_back(r.bytes(l)); }
      break;
    case T_NAPTR:
      rr.pref = r.u16(); rr.weight = r.u16();
      for (int i = 0; i < 3 && r.err.empty(); i++) { uint8_t l = r.u8(); if (r.pos + l > end) { r.err = "NAPTR string overruns rdata"; return false; } rr.strs.push_back(r.bytes(l)); }
      if (!nm(rr.target)) return false;
      break;
    case T_CAA: {
      if (rdlen < 2) { r.err = "CAA too short"; return false; }
      rr.caa_flags = r.u8();
      uint8_t tl = r.u8();
      if (r.pos + tl > end) { r.err = "CAA tag overrun"; return false; }
      rr.strs.push_back(r.bytes(tl));
      rr.strs.push_back(r.bytes(end - r.pos));
      break;
    }
    case T_OPT:
      while (r.pos < end && r.err.empty()) {
        EdnsOpt o;
        if (r.pos + 4 > end) { r.err = "OPT option header overruns rdata"; return false; }
        o.code = r.u16();
        uint16_t l = r.u16();
        if (r.pos + l > end) { r.err = "OPT option overruns rdata"; return false; }
        o.data = r.bytes(l);
        rr.opts.push_back(o);
      }
      break;
    default:
      rr.raw = r.bytes(rdlen);
      break;
  }
  if (!r.err.empty()) return false;
  if (r.pos != end) { r.err = "rdata length mismatch for type " + std::to_string(rr.type) + " (consumed " + std::to_string(r.pos - (end - rdlen)) + " of " + std::to_string(rdlen) + ")"; return false; }
  return true;
}

}  // namespace

std::string decode(const std::string &wire, Msg &m, size_t *trailing) {
  m = Msg();
  if (wire.size() < 12) return "shorter than header";
  Rd r(wire);
  m.id = r.u16();
  m.flags = r.u16();
  uint16_t qd = r.u16(), an = r.u16(), ns = r.u16(), ar = r.u16();
  for (int i = 0; i < qd; i++) {
    Question q;
    if (!r.name(q.name, wire.size())) return "question " + std::to_string(i) + ": " + r.err;
    q.type = r.u16(); q.klass = r.u16();
    if (!r.err.empty()) return "question " + std::to_string(i) + ": " + r.err;
    m.qd.push_back(q);
  }
  struct { uint16_t n; std::vector<RR> *v; const char *nm; } secs[3] = {{an, &m.an, "answer"}, {ns, &m.ns, "authority"}, {ar, &m.ar, "additional"}};
  for (auto &s : secs) {
    for (int i = 0; i < s.n; i++) {
      RR rr;
      if (!parse_rr(r, rr, false)) return std::string(s.nm) + " rr " + std::to_string(i) + ": " + r.err;
      s.v->push_back(rr);
    }
  }
  if (trailing) *trailing = wire.size() - r.pos;
  return "";
}

namespace {
struct Wr {
  std::string w;
  bool compress;
  std::map<std::string, size_t> seen;  // lower-cased suffix key -> offset
  void u8(uint8_t v) { w += (char)v; }
  void u16(uint16_t v) { w += (char)(v >> 8); w += (char)(v & 0xff); }
  void u32(uint32_t v) { u16((uint16_t)(v >> 16)); u16((uint16_t)(v & 0xffff)); }
  static std::string key(const Name &n, size_t from) {
    std::string k;
    for (size_t i = from; i < n.size(); i++) { k += (char)n[i].size(); for (unsigned char c : n[i]) k += (char)c; }
    return k;  // case-sensitive key: pointers only to byte-identical suffixes, so 0x20 case survives
  }
  void name(const Name &n, bool allow_ptr) {
    for (size_t i = 0; i < n.size(); i++) {
      std::string k = key(n, i);
      if (compress && allow_ptr) {
        auto it = seen.find(k);
        if (it != seen.end()) { u16((uint16_t)(0xC000 | it->second)); return; }
      }
      if (compress && w.size() < 0x3FFF) seen.emplace(k, w.size());
      u8((uint8_t)n[i].size());
      w += n[i];
    }
    u8(0);
  }
};

void write_rr(Wr &w, const RR &rr) {
  w.name(rr.name, true);
  w.u16(rr.type); w.u16(rr.klass); w.u32(rr.ttl);
  size_t lenpos = w.w.size();
  w.u16(0);
  switch (rr.type) {
    case T_A: case T_AAAA: w.w += rr.addr; break;
    case T_NS: case T_CNAME: case T_PTR: w.name(rr.target, true); break;
    case T_MX: w.u16(rr.pref); w.name(rr.target, true); break;
    case T_SOA: w.name(rr.target, true); w.name(rr.rname, true); for (int i = 0; i < 5; i++) w.u32(rr.soa[i]); break;
    case T_SRV: w.u16(rr.pref); w.u16(rr.weight); w.u16(rr.port); w.name(rr.target, false); break;
    case T_TXT: for (auto &s : rr.strs) { w.u8((uint8_t)s.size()); w.w += s; } break;
    case T_HINFO: for (auto &s : rr.strs) { w.u8((uint8_t)s.size()); w.w += s; } break;
    case T_NAPTR: w.u16(rr.pref); w.u16(rr.weight); for (auto &s : rr.strs) { w.u8((uint8_t)s.size()); w.w += s; } w.name(rr.target, false); break;
    case T_CAA: w.u8(rr.caa_flags); w.u8((uint8_t)(rr.strs.empty() ? 0 : rr.strs[0].size())); if (!rr.strs.empty()) w.w += rr.strs[0]; if (rr.strs.size() > 1) w.w += rr.strs[1]; break;
    case T_OPT: for (auto &o : rr.opts) { w.u16(o.code); w.u16((uint16_t)o.data.size()); w.w += o.data; } break;
    default: w.w += rr.raw; break;
  }
  size_t rdlen = w.w.size() - lenpos - 2;
  w.w[lenpos] = (char)(rdlen >> 8);
  w.w[lenpos + 1] = (char)(rdlen & 0xff);
}
}  // namespace

std::string encode(const Msg &m, const EncodeOpts &o) {
  Wr w;
  w.compress = o.compress;
  w.u16(m.id); w.u16(m.flags);
  w.u16((uint16_t)m.qd.size()); w.u16((uint16_t)m.an.size()); w.u16((uint16_t)m.ns.size()); w.u16((uint16_t)m.ar.size());
  for (auto &q : m.qd) { w.name(q.name, true); w.u16(q.type); w.u16(q.klass); }
  for (auto &r : m.an) write_rr(w, r);
  for (auto &r : m.ns) write_rr(w, r);
  for (auto &r : m.ar) write_rr(w, r);
  if (o.truncate_to && w.w.size() > o.truncate_to) {
    // Rebuild: header + questions + OPT only, TC set.
    Msg t = m;
    t.an.clear(); t.ns.clear();
    std::vector<RR> keep;
    for (auto &r : t.ar) if (r.type == T_OPT) keep.push_back(r);
    t.ar = keep;
    t.flags |= F_TC;
    EncodeOpts o2 = o; o2.truncate_to = 0;
    return encode(t, o2);
  }
  return w.w;
}

Name name_from_text(const std::string &s) {
  Name n;
  std::string cur;
  bool any = false;
  for (size_t i = 0; i < s.size(); i++) {
    char c = s[i];
    if (c == '\\' && i + 1 < s.size()) {
      if (i + 3 < s.size() && isdigit((unsigned char)s[i + 1]) && isdigit((unsigned char)s[i + 2]) && isdigit((unsigned char)s[i + 3])) {
        int v = (s[i + 1] - '0') * 100 + (s[i + 2] - '0') * 10 + (s[i + 3] - '0');
        cur += (char)v; i += 3;
      } else { cur += s[i + 1]; i += 1; }
      any = true;
    } else if (c == '.') {
      if (any || !cur.empty()) n.push_back(cur);
      cur.clear(); any = false;
    } else { cur += c; any = true; }
  }
  if (any || !cur.empty()) n.push_back(cur);
  return n;
}

std::string name_to_text(const Name &n) {
  std::string o;
  for (size_t i = 0; i < n.size(); i++) {
    if (i) o += '.';
    for (unsigned char c : n[i]) {
      if (c == '.' || c == '\\' || c == ';' || c == '(' || c == ')' || c == '@' || c == '$' || c == '"') { o += '\\'; o += (char)c; }
      else if (c <= 0x20 || c >= 0x7f) { char b[8]; snprintf(b, sizeof b, "\\%03u", c); o += b; }
      else o += (char)c;
    }
  }
  return o;
}

std::string name_lower(const std::string &t) {
  std::string o = t;
  for (auto &c : o) c = (char)tolower((unsigned char)c);
  return o;
}

bool name_eq_cs(const Name &a, const Name &b) { return a == b; }
bool name_eq_ci(const Name &a, const Name &b) {
  if (a.size() != b.size()) return false;
  for (size_t i = 0; i < a.size(); i++) {
    if (a[i].size() != b[i].size()) return false;
    for (size_t j = 0; j < a[i].size(); j++) if (tolower((unsigned char)a[i][j]) != tolower((unsigned char)b[i][j])) return false;
  }
  return true;
}

static std::string hex(const std::string &b) {
  static const char *d = "0123456789abcdef";
  std::string o;
  for (unsigned char c : b) { o += d[c >> 4]; o += d[c & 15]; }
  return o;
}

static std::string nm(const Name &n, bool keep) { std::string t = name_to_text(n); if (t.empty()) t = "."; return keep ? t : name_lower(t); }

std::string dump_rr(const RR &r, bool keep, bool with_ttl) {
  char b[128];
  std::string o = nm(r.name, keep);
  snprintf(b, sizeof b, " t%u c%u", r.type, r.klass);
  o += b;
  if (with_ttl) { snprintf(b, sizeof b, " ttl%u", r.ttl); o += b; }
  switch (r.type) {
    case T_A: case T_AAAA: o += " " + hex(r.addr); break;
    case T_NS: case T_CNAME: case T_PTR: o += " " + nm(r.target, keep); break;
    case T_MX: snprintf(b, sizeof b, " %u ", r.pref); o += b + nm(r.target, keep); break;
    case T_SOA: o += " " + nm(r.target, keep) + " " + nm(r.rname, keep); for (int i = 0; i < 5; i++) { snprintf(b, sizeof b, " %u", r.soa[i]); o += b; } break;
    case T_SRV: snprintf(b, sizeof b, " %u %u %u ", r.pref, r.weight, r.port); o += b + nm(r.target, keep); break;
    case T_TXT: case T_HINFO: for (auto &s : r.strs) o += " [" + hex(s) + "]"; break;
    case T_NAPTR: snprintf(b, sizeof b, " %u %u", r.pref, r.weight); o += b; for (auto &s : r.strs) o += " [" + hex(s) + "]"; o += " " + nm(r.target, keep); break;
    case T_CAA: snprintf(b, sizeof b, " %u", r.caa_flags); o += b; for (auto &s : r.strs) o += " [" + hex(s) + "]"; break;
    case T_OPT: for (auto &op : r.opts) { snprintf(b, sizeof b, " opt%u=", op.code); o += b + hex(op.data); } break;
    default: o += " raw=" + hex(r.raw); break;
  }
  return o;
}

std::string dump_msg(const Msg &m, bool keep, bool with_id, bool with_ttl, bool skip_cookie) {
  char b[96];
  std::string o;
  if (with_id) { snprintf(b, sizeof b, "id=%u ", m.id); o += b; }
  snprintf(b, sizeof b, "flags=%04x\n", m.flags);
  o += b;
  for (auto &q : m.qd) { snprintf(b, sizeof b, " t%u c%u\n", q.type, q.klass); o += "Q " + nm(q.name, keep) + b; }
  const std::vector<RR> *secs[3] = {&m.an, &m.ns, &m.ar};
  const char *tags[3] = {"AN ", "NS ", "AR "};
  for (int s = 0; s < 3; s++)
    for (auto &r : *secs[s]) {
      if (r.type == T_OPT && skip_cookie) {
        RR c = r;
        std::vector<EdnsOpt> k;
        for (auto &op : c.opts) if (op.code != 10) k.push_back(op);
        c.opts = k;
        o += tags[s] + dump_rr(c, keep, true) + "\n";
      } else
        o += tags[s] + dump_rr(r, keep, r.type == T_OPT ? true : with_ttl) + "\n";
    }
  return o;
}

}  // namespace dnsref
