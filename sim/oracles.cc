// Property-specific configuration, plans and oracles.
#include "oracles.h"
#include <algorithm>
#include <ares_dns_record.h>
#include <arpa/inet.h>

using dnsref::Msg;

static std::vector<int> weights(std::initializer_list<std::pair<int, int>> l) {
  std::vector<int> w(S_NKINDS, 0);
  for (auto &p : l) w[(size_t)p.first] = p.second;
  return w;
}
static void gen(const RunCfg &c, Rng &r, std::vector<Step> &plan, const std::vector<int> &w0, int nmin, int nmax) {
  std::vector<int> w = w0;
  if (!c.faults) { w[S_NETOP] = 0; w[S_FAULT] = 0; w[S_PARTITION] = 0; w[S_CHUNK] = 0; w[S_FORGE] = w[S_FORGE]; }
  int n = nmin + (int)r.below((uint64_t)(nmax - nmin + 1));
  for (int i = 0; i < n; i++) {
    Step s;
    s.k = r.pick(w);
    if (s.k == 0) s.k = S_ADV;
    s.a = (int64_t)r.below(1000); s.b = (int64_t)r.below(1000); s.c = (int64_t)r.below(1000000); s.d = (int64_t)r.below(1000);
    switch (s.k) {
      case S_ADV: s.a = r.pick({60, 15, 15, 10}); s.b = r.chance(0.8) ? 0 : 1 + (int64_t)r.below(4); s.c = r.chance(0.5) ? (int64_t)r.below(3) : (int64_t)r.below(500000); break;
      case S_STALL: s.a = r.chance(0.7) ? (int64_t)r.below(3000) : (int64_t)r.below(120000); break;
      case S_REQ: if (!c.allow_cancel_in_cb && (s.d % R_NREACT) == R_CANCEL) s.d += 1; break;
      default: break;
    }
    plan.push_back(s);
  }
}

// ---------------------------------------------------------------------------------------------
// configuration
// ---------------------------------------------------------------------------------------------
// C16: the system configuration the virtual files present; variant k is what the files say after the k-th rewrite.
// It disagrees with anything the application may set (other servers, other domains, other numbers).
struct C16Conf { std::vector<std::string> nameservers, search; int ndots, timeout_s, attempts, rotate, usevc; std::string text; };
static C16Conf c16_conf(const RunCfg &c, int variant) {
  C16Conf f;
  Rng r(hash_mix(c.seed * 0x9E3779B97F4A7C15ULL + 0xC16, (uint64_t)variant));
  if (c.server_source == 2 && variant == 0) { for (auto &sv : c.servers) f.nameservers.push_back(sv.ip + (sv.iface.empty() ? "" : "%" + sv.iface)); }
  else { int n = 1 + (int)r.below(3); for (int i = 0; i < n; i++) f.nameservers.push_back(r.chance(0.7) ? "10.99." + std::to_string(variant % 200) + "." + std::to_string(i + 1) : "fd99::" + std::to_string(variant % 200) + ":" + std::to_string(i + 1)); }
  int nsrch = (int)r.below(3);
  for (int i = 0; i < nsrch; i++) f.search.push_back("sys" + std::to_string(variant) + "x" + std::to_string(i) + ".test");
  f.ndots = r.chance(0.6) ? 10 + (int)r.below(5) : -1;
  f.timeout_s = r.chance(0.6) ? 7 + (int)r.below(5) : -1;
  f.attempts = r.chance(0.6) ? 7 + (int)r.below(3) : -1;
  f.rotate = r.chance(0.4);
  f.usevc = r.chance(0.3);
  for (auto &n : f.nameservers) f.text += "nameserver " + n + "\n";
  if (!f.search.empty()) { f.text += "search"; for (auto &d : f.search) f.text += " " + d; f.text += "\n"; }
  std::string o;
  if (f.ndots >= 0) o += " ndots:" + std::to_string(f.ndots);
  if (f.timeout_s >= 0) o += " timeout:" + std::to_string(f.timeout_s);
  if (f.attempts >= 0) o += " attempts:" + std::to_string(f.attempts);
  if (f.rotate) o += " rotate";
  if (f.usevc) o += " use-vc";
  if (!o.empty()) f.text += "options" + o + "\n";
  if (r.chance(0.4)) f.text += r.chance(0.5) ? "sortlist 130.155.160.0/255.255.240.0 130.155.0.0\n" : "sortlist 172.16.0.0/12\n";   // (drawn last: earlier draws keep their values)
  return f;
}
static std::string c16_conf_text(const RunCfg &c, int variant) { return c16_conf(c, variant).text; }

void profile_cfg_more(const std::string &prof, uint64_t seed, RunCfg &c, Rng &r) {
  (void)seed;
  if (prof == "C03") {
    c.beh_w = {90, 0, 0, 0, 0, 0, 6, 2, 1, 1, 0, 0, 0, 0, 0};   // answers, some TC (tcp upgrade), few silences; no FORMERR (keeps the expected frame exact)
    c.qcache_max_ttl = r.chance(0.5) ? 0 : 300;
    c.knobs["rich_pct"] = 55;
    if (r.chance(0.5)) c.flags = (c.flags < 0 ? ARES_FLAG_EDNS : c.flags) | (r.chance(0.5) ? ARES_FLAG_USEVC : 0);
    c.pending_write_cb = r.chance(0.5);
    c.prof.big_answer_pct = 8;
  } else if (prof == "C06") {
    c.allow_cancel_in_cb = 0;
    if (r.chance(0.25)) { c.tries = r.chance(0.5) ? 5 + (int)r.below(20) : 60 + (int)r.below(45); c.maxtimeout_ms = r.chance(0.6) ? 1 + (int)r.below(400) : -1; c.timeout_ms = 1 + (int)r.below(300); }
    if (r.chance(0.1)) c.timeout_ms = r.chance(0.5) ? 1 : 2147483647;
    if (r.chance(0.1)) c.maxtimeout_ms = 1 + (int)r.below(249);
    c.beh_w = {40, 8, 4, 2, 6, 2, 8, 20, 3, 1, 2, 0, 2, 2, 0};
    for (auto &s : c.servers) s.cookie_mode = r.chance(0.3) ? (int)r.below(CK_NMODES) : 0;
    c.qcache_max_ttl = 0;
    c.knobs["nactive"] = 1 + (int64_t)r.below(c.servers.size());
    if (r.chance(0.15)) {
      // servers that interleave BADCOOKIE (with a valid cookie) and counted failures: the bad-cookie resends are free of
      // charge, but only three per query
      c.beh_w = {22, 18, 4, 0, 0, 0, 0, 18, 0, 0, 0, 38, 0, 0, 0};
      for (auto &sv : c.servers) sv.cookie_mode = CK_GOOD;
      c.flags = (c.flags < 0 ? 0 : c.flags) | ARES_FLAG_EDNS;
      c.flags &= ~ARES_FLAG_USEVC;
      if (c.tries >= 0 && c.tries < 3) c.tries = 3 + (int)r.below(3);
    }
    if (r.chance(0.2)) {   // dead servers: every attempt of the budget is consumed
      c.beh_w = {0, 10, 5, 0, 0, 0, 0, 80, 0, 0, 5, 0, 0, 0, 0};
      if (r.chance(0.5)) c.knobs["nactive"] = 1;
    }
  } else if (prof == "C14B") {
    // allocation-failure enumeration with the event thread: healthy network, short program, every index failed once
    c.mode = 1;
    c.faults = 0;
    c.allow_cancel_in_cb = 1;
    c.nthreads = 1 + (int)r.below(2);
    static const int evs[] = {0, 2, 4, 5};
    c.evsys = evs[r.below(4)];
    c.sched_policy = 0; c.sched_preempt = r.chance(0.5) ? 0 : (int)r.below(200);
    c.sockfuncs = 0; c.pending_write_cb = 0; c.sock_create_cb = 0; c.sock_config_cb = 0; c.loop_style = 0;
    c.beh_w = {90, 0, 0, 0, 0, 0, 10, 0, 0, 0, 0, 0, 0, 0, 0};
    c.tries = 2; c.timeout_ms = 100 + (int)r.below(300); c.maxtimeout_ms = -1;
    if (c.flags < 0) c.flags = ARES_FLAG_EDNS;
    c.qcache_max_ttl = r.chance(0.6) ? 300 : 0;
    c.names.resize(3 + r.below(3));
    c.hosts_file = "127.0.0.1 localhost\n::1 localhost\n10.77.0.1 hostsname1 alias1\n";
    c.names.push_back("!hostsname1"); c.names.push_back("!localhost");
  } else if (prof == "C11" || prof == "C07B") {
    // Mode B: real threads under the baton scheduler, the library's own event thread drives all I/O
    c.mode = 1;
    c.allow_cancel_in_cb = prof == "C11" ? 1 : 0;
    c.nthreads = prof == "C11" ? 2 + (int)r.below(3) : 1 + (int)r.below(2);
    static const int evs[] = {0, 2, 4, 5};
    c.evsys = evs[r.below(4)];
    c.sched_policy = r.chance(0.7) ? 0 : (r.chance(0.5) ? 1 : 2);
    c.sched_preempt = r.chance(0.3) ? 0 : (int)r.below(300);
    c.sockfuncs = 0; c.pending_write_cb = 0; c.sock_create_cb = 0; c.sock_config_cb = 0; c.loop_style = 0;
    c.tries = 1 + (int)r.below(3);
    c.timeout_ms = 50 + (int)r.below(450);
    c.maxtimeout_ms = r.chance(0.7) ? -1 : 500 + (int)r.below(2000);
    if (c.flags < 0) c.flags = ARES_FLAG_EDNS;
    // "slow machine": in some runs the clock also moves a little at scheduling points although a thread could run
    if (r.chance(prof == "C07B" ? 0.4 : 0.25)) { c.knobs["sched_stall_permille"] = 10 + (int64_t)r.below(90); c.knobs["sched_stall_max_us"] = r.chance(0.5) ? 1500 : 20000; }
    if (r.chance(0.3)) c.knobs["spurious_permille"] = 20 + (int64_t)r.below(200);
    if (prof == "C07B") {
      if (r.chance(0.7)) c.flags |= ARES_FLAG_STAYOPEN;
      c.flags &= ~ARES_FLAG_USEVC;
      c.beh_w = {45, 2, 1, 0, 1, 0, 3, 45, 2, 0, 1, 0, 0, 0, 0};
      c.qcache_max_ttl = 0;
      c.faults = 0;
      c.udp_max_queries = r.chance(0.7) ? -1 : 1 + (int)r.below(3);
    } else {
      c.beh_w = {70, 3, 2, 1, 2, 1, 5, 10, 2, 2, 1, 0, 1, 0, 0};
      if (r.chance(0.5)) c.faults = 0;
    }
  } else if (prof == "C16" || prof == "C16B") {
    c.allow_cancel_in_cb = 0;
    c.faults = 0;
    c.beh_w = {100, 0, 0, 0, 0, 0, 0, 0, 0, 0, 0, 0, 0, 0, 0};
    // every option is independently set or left to the system configuration
    c.flags = r.chance(0.5) ? -1 : (int)((r.chance(0.5) ? ARES_FLAG_EDNS : 0) | (r.chance(0.3) ? ARES_FLAG_STAYOPEN : 0) | (r.chance(0.2) ? ARES_FLAG_NOSEARCH : 0) | (r.chance(0.2) ? ARES_FLAG_IGNTC : 0) | (r.chance(0.15) ? ARES_FLAG_USEVC : 0) | (r.chance(0.2) ? ARES_FLAG_NOALIASES : 0) | (r.chance(0.2) ? ARES_FLAG_DNS0x20 : 0));
    c.tries = r.chance(0.5) ? -1 : 1 + (int)r.below(6);
    c.timeout_ms = r.chance(0.5) ? -1 : (r.chance(0.3) ? 1 + (int)r.below(20) : 200 + (int)r.below(4000));
    c.maxtimeout_ms = r.chance(0.6) ? -1 : 300 + (int)r.below(9000);
    c.rotate = r.chance(0.5) ? -1 : (int)r.below(2);
    c.udp_max_queries = r.chance(0.6) ? -1 : (int)r.below(5);
    c.ndots = r.chance(0.5) ? -1 : (int)r.below(6);
    c.set_domains = r.chance(0.5) ? 1 : 0;
    c.domains.clear();
    if (c.set_domains) { int nd = (int)r.below(4); static const char *doms[] = {"user1.test", "user2.test", "sub.user3.test", "user4.test"}; for (int i = 0; i < nd; i++) c.domains.push_back(doms[(r.below(4) + (uint64_t)i) % 4]); }
    c.lookups = r.chance(0.5) ? "" : (r.chance(0.4) ? "b" : (r.chance(0.5) ? "bf" : "fb"));
    c.qcache_max_ttl = r.chance(0.5) ? -1 : (int)r.below(900);
    if (r.chance(0.4)) { c.retry_chance = (int)r.below(20); c.retry_delay = (int)r.below(9000); } else { c.retry_chance = -1; c.retry_delay = -1; }
    c.ednspsz = r.chance(0.6) ? -1 : 512 + (int)r.below(3500);
    c.sndbuf = r.chance(0.7) ? -1 : 4096 + (int)r.below(60000);
    c.rcvbuf = r.chance(0.7) ? -1 : 4096 + (int)r.below(60000);
    static const char *sl[] = {"", "", "10.0.0.0/8", "10.1.0.0/255.255.0.0 10.0.0.0/8", "fd00::/8", "192.0.2.0/24 10.128.0.0/9"};
    c.sortlist = sl[r.below(6)];
    c.local_dev = r.chance(0.25) ? "eth0" : "";
    c.local_ip4 = r.chance(0.2) ? 0xC0000250 : 0;
    c.local_ip6 = r.chance(0.15);
    c.sockfuncs = 0; c.tfo = 0; c.pending_write_cb = 0; c.sock_create_cb = 0; c.sock_config_cb = 0;
    // server sets: IPv4 / IPv6 / link-local, default, equal and differing UDP/TCP ports, through each encoding
    c.servers.clear();
    int ns = 1 + (int)r.below(4);
    c.server_source = (int)r.below(5);   // 0 csv, 1 legacy ipv4 option, 2 system configuration, 3 addr nodes, 4 addr+port nodes
    for (int i = 0; i < ns; i++) {
      ServerSpec sv;
      int kind = (int)r.below(10);
      if (c.server_source == 1) kind = 0;
      if (kind < 5) sv.ip = "10.53.0." + std::to_string(i + 1);
      else if (kind < 8) sv.ip = "fd53::" + std::to_string(i + 1);
      else { sv.ip = "fe80::" + std::to_string(i + 1); sv.iface = r.chance(0.5) ? "eth0" : "eth1"; }
      if (c.server_source == 0 || c.server_source == 4) {
        int pk = (int)r.below(4);
        if (pk == 1) { sv.udp_port = sv.tcp_port = 5300 + (int)r.below(50); }
        else if (pk == 2) { sv.udp_port = 5300 + (int)r.below(50); sv.tcp_port = 5400 + (int)r.below(50); }
        else if (pk == 3 && c.server_source == 0) { sv.udp_port = 53; sv.tcp_port = 853 + (int)r.below(5); }
      }
      if (c.server_source == 2 || c.server_source == 3) { sv.udp_port = sv.tcp_port = 53; }
      if (c.server_source == 3 || c.server_source == 4) sv.iface = sv.ip.compare(0, 4, "fe80") == 0 ? sv.iface : "";
      if ((c.server_source == 3 || c.server_source == 4) && sv.ip.compare(0, 4, "fe80") == 0) { sv.ip = "fd53::" + std::to_string(i + 1); sv.iface = ""; }   // node lists carry no interface
      c.servers.push_back(sv);
    }
    c.knobs["conf_variant"] = 0;
    c.resolv_conf = c16_conf_text(c, 0);
    c.nsswitch = r.chance(0.5) ? "" : (r.chance(0.5) ? "hosts: files dns\n" : "hosts: dns files\n");
    c.env.clear();
    if (r.chance(0.3)) c.env["LOCALDOMAIN"] = "envdom1.test envdom2.test";
    if (r.chance(0.3)) c.env["RES_OPTIONS"] = "ndots:" + std::to_string(7 + r.below(3)) + (r.chance(0.5) ? " retrans:" + std::to_string(1 + r.below(3)) : "") + (r.chance(0.5) ? " retry:" + std::to_string(1 + r.below(5)) : "") + (r.chance(0.3) ? " rotate" : "");
    c.qtypes = {1, 28};
    if (prof == "C16B") {
      // threaded part: the same option space, driven by two caller threads against the event thread and its reload thread
      c.mode = 1; c.nthreads = 2;
      static const int evs[] = {0, 2, 4, 5};
      c.evsys = evs[r.below(4)];
      c.sched_policy = r.chance(0.6) ? 0 : (r.chance(0.5) ? 1 : 2);
      c.sched_preempt = 50 + (int)r.below(450);
      c.loop_style = 0;
      c.knobs["file_io_yields"] = 1;   // reading a configuration file is a point where the thread may lose the processor
      c.server_source = r.chance(0.7) ? 2 : 0;   // mostly: servers come from the system configuration until the application sets them
      c.local_dev = ""; c.local_ip4 = 0; c.local_ip6 = 0;
      for (auto &sv : c.servers) { if (sv.ip.compare(0, 4, "fe80") == 0) sv.ip = "fd53::" + std::to_string(&sv - &c.servers[0] + 1); sv.iface = ""; if (c.server_source == 2) sv.udp_port = sv.tcp_port = 53; }
      while (c.servers.size() < 3) { ServerSpec sv; sv.ip = "10.53.1." + std::to_string(c.servers.size() + 1); c.servers.push_back(sv); }
      if (c.timeout_ms < 0 || c.timeout_ms > 400) c.timeout_ms = 50 + (int)r.below(300);
      if (c.tries < 0 || c.tries > 2) c.tries = 1 + (int)r.below(2);
      if (c.flags >= 0) c.flags &= ~(ARES_FLAG_USEVC | ARES_FLAG_NO_DFLT_SVR);
      c.env.erase("RES_OPTIONS");
      c.resolv_conf = c16_conf_text(c, 0);
      if (c.resolv_conf.find("sortlist") == std::string::npos && r.chance(0.6)) c.resolv_conf += "sortlist 130.155.160.0/255.255.240.0 130.155.0.0\n";
      // the system's own timeout/attempts options would make silent runs very long
      for (const char *k : {" timeout:", " attempts:"}) { size_t at; while ((at = c.resolv_conf.find(k)) != std::string::npos) { size_t e = c.resolv_conf.find_first_of(" \n", at + 1); c.resolv_conf.erase(at, e - at); } }
    }
  } else if (prof == "C14") {
    // healthy network: the only fault of a C14 run is the one failing allocation
    c.faults = 0;
    c.allow_cancel_in_cb = 1;
    c.beh_w = {88, 0, 0, 0, 0, 0, 12, 0, 0, 0, 0, 0, 0, 0, 0};   // answers; some truncation so TCP paths are enumerated too
    c.tries = 2 + (int)r.below(2);
    c.timeout_ms = 100 + (int)r.below(400);
    c.maxtimeout_ms = -1;
    c.qcache_max_ttl = r.chance(0.75) ? 300 : 0;
    c.use_tokens = r.chance(0.35) ? 0 : 1;                        // token-less names repeat, which gives cache hits
    c.names.resize(3 + r.below(3));
    c.hosts_file = "127.0.0.1 localhost\n::1 localhost\n10.77.0.1 hostsname1 alias1\nfd77::1 hostsname1\n";
    c.names.push_back("!hostsname1"); c.names.push_back("!localhost"); c.names.push_back("!10.1.2.3");
    if (r.chance(0.4)) c.sortlist = r.chance(0.5) ? "10.0.0.0/8" : "fd00::/8 10.128.0.0/9";
    if (r.chance(0.3)) c.nsswitch = "hosts: files dns\n";
    for (auto &sv : c.servers) sv.cookie_mode = r.chance(0.4) ? CK_GOOD : 0;
    if (r.chance(0.3)) c.local_dev = "eth0";
    if (r.chance(0.2)) c.local_ip4 = 0xC0000250;
    c.sock_create_cb = r.chance(0.2) ? 1 : 0; c.sock_config_cb = r.chance(0.2) ? 1 : 0;
    // TCP-only channels with fast open and deferred writes have their own allocation sites
    if (c.flags >= 0 && r.chance(0.3)) { c.flags |= ARES_FLAG_USEVC; c.tfo = r.chance(0.7); c.pending_write_cb = r.chance(0.6); if (r.chance(0.5)) c.flags |= ARES_FLAG_STAYOPEN; }
    // a share of scenarios puts 13..17 requests in flight at once: the library's hash tables (queries by id, connections by
    // socket, cache entries) grow at their 13th entry, and growing is a multi-allocation operation of its own
    c.knobs["reverse_hosts_pct"] = 35;
    if (r.chance(0.08)) { c.knobs["c14_burst"] = 13 + (int64_t)r.below(5); c.use_tokens = 1; if (r.chance(0.5)) c.udp_max_queries = 1; }
  } else if (prof == "C07") {
    c.allow_cancel_in_cb = 0;
    c.beh_w = {45, 4, 2, 0, 3, 0, 5, 35, 4, 1, 1, 0, 1, 0, 0};
    c.qcache_max_ttl = 0;
  } else if (prof == "C17") {
    c.allow_cancel_in_cb = 0;
    int f = ARES_FLAG_EDNS | ARES_FLAG_NOALIASES | ARES_FLAG_NOSEARCH;
    if (r.chance(0.4)) f |= ARES_FLAG_STAYOPEN;
    if (r.chance(0.15)) f |= ARES_FLAG_DNS0x20;
    c.flags = f;
    c.tries = 2 + (int)r.below(2); c.timeout_ms = 300 + (int)r.below(700); c.maxtimeout_ms = -1;
    c.rotate = 0; c.udp_max_queries = r.chance(0.8) ? -1 : 2 + (int)r.below(3);
    c.qcache_max_ttl = 0; c.retry_chance = 0; c.retry_delay = 0;
    c.set_domains = 1; c.domains.clear(); c.lookups = "b";
    if (c.servers.size() > 2) c.servers.resize(2);
    static const int modes[] = {CK_NONE, CK_GOOD, CK_GOOD, CK_CHANGING, CK_WRONG_CLIENT, CK_SHORT, CK_LONG, CK_BADCOOKIE_ONCE, CK_BADCOOKIE_ALWAYS, CK_BADCOOKIE_NOCOOKIE, CK_REGRESS, CK_REGRESS};
    for (auto &sv : c.servers) sv.cookie_mode = modes[r.below(sizeof modes / sizeof *modes)];
    c.beh_w = {92, 0, 0, 0, 2, 1, 5, 0, 0, 0, 0, 0, 0, 0, 0};
    c.zone_w = {80, 10, 10, 0};
    c.server_source = 0; c.resolv_conf = "nameserver 10.99.99.99\n";
    c.knobs["kind_mask"] = (1 << K_SEND_DNSREC) | (1 << K_QUERY_DNSREC) | (1 << K_QUERY) | (1 << K_GETADDRINFO);
    c.knobs["single_family"] = 1;
    c.sock_create_cb = 0; c.sock_config_cb = 0; c.pending_write_cb = 0;
    c.faults = 1;
    c.min_delay = 300; c.max_delay = 20000;
    if (r.chance(0.25)) c.t0_us -= c.t0_us % 1000000;   // usec == 0 instants matter for "is the timestamp set" tests
    // a share of runs is built around the fall-back: a single server that proves support and then stops returning cookies, so the
    // request made after the regression period has nowhere else to go
    if (r.chance(0.25)) { c.knobs["c17_fallback_motif"] = 1; c.servers.resize(1); c.servers[0].cookie_mode = CK_REGRESS; c.knobs["kind_mask"] = (1 << K_SEND_DNSREC) | (1 << K_QUERY_DNSREC) | (1 << K_QUERY); }
  } else if (prof == "C09") {
    c.allow_cancel_in_cb = 0;
    c.servers.clear();
    int ns = 1 + (int)r.below(6);
    for (int i = 0; i < ns; i++) { ServerSpec sv; bool v6 = r.chance(0.25); sv.ip = v6 ? "fd53::" + std::to_string(i + 1) : "10.53.0." + std::to_string(i + 1); if (r.chance(0.2)) { sv.udp_port = 5300 + i; sv.tcp_port = sv.udp_port; } c.servers.push_back(sv); }
    c.knobs["nactive"] = 1 + (int64_t)r.below((uint64_t)ns);
    c.rotate = (int)r.below(2) ? 1 : 0;
    c.retry_chance = r.chance(0.3) ? 0 : (r.chance(0.5) ? 1 : 2 + (int)r.below(8));
    c.retry_delay = r.chance(0.3) ? 0 : (r.chance(0.5) ? 100 + (int)r.below(900) : 3000 + (int)r.below(7000));
    int f = ARES_FLAG_NOALIASES | ARES_FLAG_NOSEARCH;
    if (r.chance(0.7)) f |= ARES_FLAG_EDNS;
    if (r.chance(0.3)) f |= ARES_FLAG_STAYOPEN;
    if (r.chance(0.15)) f |= ARES_FLAG_NOCHECKRESP;
    c.flags = f;
    c.tries = 1 + (int)r.below(4); c.timeout_ms = 100 + (int)r.below(600); c.maxtimeout_ms = -1;
    c.udp_max_queries = r.chance(0.7) ? -1 : 1 + (int)r.below(3);
    c.qcache_max_ttl = 0;
    c.set_domains = 1; c.domains.clear(); c.lookups = "b";
    c.beh_w = {55, 8, 5, 2, 3, 1, 3, 18, 2, 1, 2, 0, 0, 0, 0};
    if (r.chance(0.3)) c.beh_w = {30, 15, 8, 0, 0, 0, 0, 45, 0, 0, 2, 0, 0, 0, 0};
    c.zone_w = {70, 15, 15, 0};
    for (auto &sv : c.servers) sv.cookie_mode = CK_NONE;
    c.server_source = 0; c.resolv_conf = "nameserver 10.99.99.99\n";
    c.knobs["kind_mask"] = (1 << K_SEND_DNSREC) | (1 << K_QUERY_DNSREC) | (1 << K_QUERY) | (1 << K_SEND) | (1 << K_GETADDRINFO) | (1 << K_GETHOSTBYNAME);
    c.sock_create_cb = 0; c.sock_config_cb = 0; c.pending_write_cb = 0;
  } else if (prof == "C13") {
    c.allow_cancel_in_cb = 0;
    int f = ARES_FLAG_NOALIASES;
    if (r.chance(0.7)) f |= ARES_FLAG_EDNS;
    if (r.chance(0.6)) f |= ARES_FLAG_NOSEARCH;
    if (r.chance(0.2)) f |= ARES_FLAG_DNS0x20;
    if (r.chance(0.3)) f |= ARES_FLAG_STAYOPEN;
    if (r.chance(0.1)) f |= ARES_FLAG_USEVC;
    c.flags = f;
    c.ndots = 1; c.set_domains = 1; c.domains.clear();
    if (!(f & ARES_FLAG_NOSEARCH)) { c.domains.push_back("corp.test"); if (r.chance(0.5)) c.domains.push_back("lan.test"); }
    static const char *lk[] = {"b", "bf", "fb", "f"};
    c.lookups = lk[r.below(4)];
    c.qcache_max_ttl = r.chance(0.7) ? 0 : 300;
    c.tries = 2; c.timeout_ms = 400; c.maxtimeout_ms = -1; c.rotate = 0; c.udp_max_queries = -1;
    c.retry_chance = 0; c.retry_delay = 0;
    if (c.servers.size() > 2) c.servers.resize(2);
    for (auto &sv : c.servers) sv.cookie_mode = r.chance(0.3) ? CK_GOOD : CK_NONE;
    c.beh_w = {96, 0, 0, 0, 0, 0, 4, 0, 0, 0, 0, 0, 0, 0, 0};
    c.zone_w = {70, 10, 12, 8};
    c.prof.max_addrs = r.chance(0.3) ? 40 : 6; c.prof.max_cname_chain = 3;
    c.prof.mixed_family_pct = 20; c.prof.foreign_class_pct = 15; c.prof.additional_addr_pct = 25;
    c.prof.ttl_choices = {1, 5, 30, 77, 300, 3600, 86400};
    c.knobs["kind_mask"] = (1 << K_GETADDRINFO) | (1 << K_GETHOSTBYNAME) | (1 << K_GETHOSTBYADDR) | (1 << K_GETNAMEINFO);
    if (r.chance(0.5)) { static const char *sl[] = {"10.0.0.0/8", "10.1.0.0/255.255.0.0 10.0.0.0/8", "10.0.0.0/9 10.128.0.0/9"}; c.sortlist = sl[r.below(3)]; }
    // hosts file: names served from the file, some dual stack; literal and loopback names
    c.hosts_file = "127.0.0.1 localhost\n::1 localhost\n198.51.100.10 hosty1.test alias1.test\n198.51.100.11 hosty1.test\n2001:db8:1::10 hosty1.test\n198.51.100.20 hosty2.test\n2001:db8:1::30 hosty3.test\n";
    c.names.push_back("!hosty1.test"); c.names.push_back("!hosty2.test"); c.names.push_back("!hosty3.test");
    c.names.push_back("!192.0.2.55"); c.names.push_back("!2001:db8::55"); c.names.push_back("!localhost"); c.names.push_back("!foo.localhost");
    c.sock_create_cb = 0; c.sock_config_cb = 0;
    c.min_delay = 200; c.max_delay = 20000;
    if (r.chance(0.3)) c.knobs["token_style"] = 2;   // token inside the first label: single-label names stay single-label
    // in half of the runs a question can fail for good (SERVFAIL / REFUSED from every server on every try), independently per
    // family: the surviving family's addresses must still be returned
    if (r.chance(0.5)) c.knobs["c13_question_failures"] = 1;
  } else if (prof == "C12") {
    c.allow_cancel_in_cb = 0;
    c.knobs["token_style"] = 2;
    c.names.clear();
    int nn = 8 + (int)r.below(8);
    for (int i = 0; i < nn; i++) {
      switch (r.below(9)) {
        case 0: case 1: c.names.push_back("h" + std::to_string(i)); break;                                     // single label
        case 2: c.names.push_back("a" + std::to_string(i) + ".b"); break;                                      // one dot
        case 3: c.names.push_back("a" + std::to_string(i) + ".b.c"); break;                                    // two dots
        case 4: c.names.push_back("a" + std::to_string(i) + ".b.c.d.e"); break;                                // four dots
        case 5: c.names.push_back("x" + std::to_string(i) + ".ex1.test."); break;                              // fully qualified
        case 6: c.names.push_back(std::string(50, 'l') + std::to_string(i) + ".ex2.test"); break;              // long label
        case 7: { std::string n2 = "n" + std::to_string(i); for (int k = 0; k < 3; k++) n2 += "." + std::string(58, (char)('a' + k)); n2 += "." + std::string(40 + r.below(14), 'z'); c.names.push_back(n2); break; }   // name + domain may not fit
        default: c.names.push_back("al"); break;                                                              // may have a host alias
      }
    }
    {
      // names with escaped dots: resolv.conf(5) counts the dots that "appear in a name", escaped or not, while the number of
      // labels on the wire is smaller (own generator: leaves the configuration of existing seeds otherwise unchanged)
      Rng er(hash_mix(c.seed * 0x9E3779B97F4A7C15ULL + 0xE5CD07, 12));
      if (er.chance(0.6)) {
        int ne = 1 + (int)er.below(3);
        for (int i = 0; i < ne; i++) {
          std::string b = "e" + std::to_string(i);
          switch (er.below(4)) {
            case 0: c.names.push_back(b + "\\.f"); break;              // one dot, escaped: a single label on the wire
            case 1: c.names.push_back(b + ".f\\.g"); break;            // two dots, one of them escaped
            case 2: c.names.push_back(b + "\\.f\\.g.h"); break;        // three dots, two escaped
            default: c.names.push_back(b + "\\.f.g\\.h.i"); break;     // four dots, two escaped
          }
        }
      }
    }
    int f = 0;
    if (r.chance(0.7)) f |= ARES_FLAG_EDNS;
    if (r.chance(0.12)) f |= ARES_FLAG_NOSEARCH;
    if (r.chance(0.5)) f |= ARES_FLAG_NOALIASES;
    if (r.chance(0.2)) f |= ARES_FLAG_DNS0x20;
    if (r.chance(0.2)) f |= ARES_FLAG_STAYOPEN;
    c.flags = f;
    c.ndots = r.chance(0.3) ? -1 : (int)r.below(4);
    c.set_domains = 1; c.domains.clear();
    int nd = (int)r.below(5);
    static const char *doms[] = {"corp.test", "sub.corp.test", "lan.test", ".", "deep.er.dom.test"};
    for (int i = 0; i < nd; i++) { std::string d = doms[r.below(5)]; if (std::find(c.domains.begin(), c.domains.end(), d) == c.domains.end()) c.domains.push_back(d); }
    c.lookups = "b";
    c.qcache_max_ttl = 0;
    c.retry_chance = 0; c.retry_delay = 0;   // no failover probes: every transmission belongs to a candidate
    c.tries = 1 + (int)r.below(2); c.timeout_ms = 100 + (int)r.below(200); c.maxtimeout_ms = -1;
    c.rotate = 0; c.udp_max_queries = -1;
    if (c.servers.size() > 2) c.servers.resize(2);
    for (auto &sv : c.servers) sv.cookie_mode = CK_NONE;
    c.server_source = 0; c.resolv_conf = "nameserver 10.99.99.99\n";
    c.zone_w = {30, 30, 40, 0};
    c.prof.max_cname_chain = 0; c.prof.max_addrs = 2;
    c.qtypes = {1, 28, 16, 15};
    c.knobs["kind_mask"] = (1 << K_SEARCH_DNSREC) | (1 << K_SEARCH) | (1 << K_GETADDRINFO) | (1 << K_GETHOSTBYNAME);
    c.knobs["single_family"] = 1;
    c.knobs["c12_w_answer"] = 70 + (int64_t)r.below(25); c.knobs["c12_w_servfail"] = (int64_t)r.below(12); c.knobs["c12_w_refused"] = (int64_t)r.below(8); c.knobs["c12_w_silent"] = (int64_t)r.below(8);
    if (r.chance(0.5)) { std::string ha; for (int n = 0; n < 400; n++) ha += "al-t" + std::to_string(n) + " al-t" + std::to_string(n) + ".aliased.test\n"; c.hostaliases = ha; }
    c.sock_create_cb = 0; c.sock_config_cb = 0; c.pending_write_cb = 0;
    c.faults = 0;   // per-candidate outcomes are the fault dimension of this profile
    // where the settings come from: channel options, or the system configuration (resolv.conf "options ndots:" / "search",
    // RES_OPTIONS / LOCALDOMAIN in the environment); the reference always knows what was written
    if (c.ndots >= 0 && r.chance(0.4)) {
      c.knobs["conf_ndots"] = c.ndots;
      if (r.chance(0.3)) c.env["RES_OPTIONS"] = "ndots:" + std::to_string(c.ndots); else c.resolv_conf += "options ndots:" + std::to_string(c.ndots) + "\n";
      c.ndots = -1;
    }
    if (!c.domains.empty() && r.chance(0.35)) {
      std::string line; for (auto &d : c.domains) line += (line.empty() ? "" : " ") + d;
      c.knobs["conf_search"] = 1;
      // (the library deliberately keeps only the first domain of LOCALDOMAIN, resolv.conf(5) allows a list: the environment
      //  variable is only used for single-domain lists here; see DESIGN.md 12.6)
      if (c.domains.size() == 1 && r.chance(0.5)) c.env["LOCALDOMAIN"] = line; else c.resolv_conf += "search " + line + "\n";
      c.set_domains = 0;   // c.domains stays: it is what the reference expects
    }
    c.min_delay = 200; c.max_delay = 3000;
    if (r.chance(0.35)) c.knobs["c12_reload"] = 1;   // the system configuration is rewritten and reloaded while the channel lives
  } else if (prof == "C05") {
    c.allow_cancel_in_cb = 0;
    c.beh_w = {70, 3, 1, 0, 2, 1, 6, 8, 6, 2, 1, 0, 1, 1, 0};
    c.zone_w = {70, 10, 15, 5};
    for (auto &sv : c.servers) sv.cookie_mode = r.chance(0.5) ? CK_GOOD : CK_NONE;
    c.qcache_max_ttl = r.chance(0.5) ? 0 : 300;
    if (r.chance(0.5)) c.udp_max_queries = 1 + (int)r.below(3);
    c.prof.ttl_choices = {5, 30, 300};
    c.sock_create_cb = 0; c.sock_config_cb = 0;
    c.timeout_ms = 200 + (int)r.below(1500); c.tries = 2 + (int)r.below(3); c.maxtimeout_ms = -1;
    c.knobs["kind_mask"] = (1 << K_SEND_DNSREC) | (1 << K_QUERY_DNSREC) | (1 << K_QUERY) | (1 << K_SEND) | (1 << K_GETADDRINFO) | (1 << K_GETHOSTBYNAME) | (1 << K_SEARCH_DNSREC) | (1 << K_SEARCH);
  } else if (prof == "C08") {
    c.allow_cancel_in_cb = 0;
    c.use_tokens = 0;
    c.names.clear();
    int nb = 3 + (int)r.below(4);
    for (int i = 0; i < nb; i++) {
      std::string b = "cache" + std::to_string(i) + (r.chance(0.5) ? ".ex1.test" : ".sub.ex2.test");
      c.names.push_back(b);
      if (r.chance(0.6)) { std::string u = b; for (auto &ch : u) ch = (char)toupper((unsigned char)ch); c.names.push_back(u); }
      if (r.chance(0.6)) c.names.push_back(b + ".");
    }
    c.qtypes = {1, 28, 16, 15};
    if (r.chance(0.4)) { c.qtypes.push_back(99); c.qtypes.push_back(100); }   // types the library has no name for (legal in queries)
    int f = ARES_FLAG_NOSEARCH | ARES_FLAG_NOALIASES;
    if (r.chance(0.7)) f |= ARES_FLAG_EDNS;
    if (r.chance(0.35)) f |= ARES_FLAG_DNS0x20;
    if (r.chance(0.3)) f |= ARES_FLAG_STAYOPEN;
    if (r.chance(0.1)) f |= ARES_FLAG_USEVC;
    {
      // truncated answers that are accepted (ARES_FLAG_IGNTC) must still never be replayed: a truncated negative answer keeps
      // its SOA, so that only the TC bit stands between it and the cache (own generator: other draws of existing seeds unchanged)
      Rng tr(hash_mix(c.seed * 0x9E3779B97F4A7C15ULL + 0x7C08, 8));
      if (tr.chance(0.35)) { f |= ARES_FLAG_IGNTC; c.knobs["tc_keeps_negative"] = 1; c.knobs["c08_igntc"] = 1; }
    }
    c.flags = f;
    c.set_domains = 1; c.domains.clear();
    c.lookups = "b";
    static const int mt[] = {0, 1, 2, 3, 5, 30, 300, 3600, -1};
    c.qcache_max_ttl = mt[r.below(9)];
    c.prof.ttl_choices = {0, 1, 2, 3, 5, 30, 300};
    if (r.chance(0.3)) c.prof.ttl_choices = {2, 3, 5};
    c.prof.max_cname_chain = 1; c.prof.max_addrs = 3;
    c.beh_w = {86, 3, 1, 0, 1, 0, 4, 2, 1, 2, 0, 0, 0, 0, 0};
    if (c.knobs.count("c08_igntc")) c.beh_w[B_TC] = 14;
    c.zone_w = {55, 15, 25, 5};
    c.tries = 2; c.timeout_ms = 300 + (int)r.below(500); c.maxtimeout_ms = -1;
    c.udp_max_queries = -1;
    c.knobs["kind_mask"] = (1 << K_SEND_DNSREC) | (1 << K_QUERY_DNSREC) | (1 << K_QUERY) | (1 << K_SEND) | (1 << K_GETADDRINFO) | (1 << K_GETHOSTBYNAME) | (1 << K_SEARCH_DNSREC);
    c.knobs["single_family"] = 1;
    for (auto &sv : c.servers) sv.cookie_mode = r.chance(0.3) ? CK_GOOD : CK_NONE;
    c.server_source = 0;
    c.resolv_conf = "nameserver 10.99.99.99\n";
  } else if (prof == "C20") {
    c.allow_cancel_in_cb = 0;
    int f = ARES_FLAG_NOALIASES | ARES_FLAG_NOSEARCH;
    if (r.chance(0.8)) f |= ARES_FLAG_EDNS;
    if (r.chance(0.55)) f |= ARES_FLAG_USEVC;
    if (r.chance(0.2)) f |= ARES_FLAG_IGNTC;
    if (r.chance(0.4)) f |= ARES_FLAG_STAYOPEN;
    if (r.chance(0.2)) f |= ARES_FLAG_DNS0x20;
    c.flags = f;
    c.tries = 3; c.timeout_ms = 5000; c.maxtimeout_ms = -1;
    c.udp_max_queries = -1; c.rotate = 0;
    c.qcache_max_ttl = 0;
    c.set_domains = 1; c.domains.clear(); c.lookups = "b";
    c.pending_write_cb = r.chance(0.5); c.tfo = r.chance(0.5);
    c.beh_w = {84, 0, 0, 0, 0, 0, 14, 0, 0, 2, 0, 0, 0, 0, 0};
    c.zone_w = {80, 8, 10, 2};
    c.prof.big_answer_pct = 25; c.prof.max_addrs = 8;
    c.min_delay = 200; c.max_delay = 5000;
    if (c.servers.size() > 2) c.servers.resize(2);
    for (auto &sv : c.servers) { sv.cookie_mode = CK_NONE; }
    c.server_source = 0; c.resolv_conf = "nameserver 10.99.99.99\n";
    c.knobs["kind_mask"] = (1 << K_SEND_DNSREC) | (1 << K_QUERY_DNSREC) | (1 << K_QUERY) | (1 << K_SEND) | (1 << K_GETADDRINFO) | (1 << K_GETHOSTBYNAME);
    c.knobs["default_chunking"] = r.chance(0.6);
    c.knobs["single_family"] = 1;   // with two sub-queries the final status legitimately depends on which one finishes last
    c.sock_create_cb = 0; c.sock_config_cb = 0;
    c.faults = 1;
  } else if (prof == "C10") {
    c.allow_cancel_in_cb = 1;
    if (r.chance(0.5)) c.udp_max_queries = 1 + (int)r.below(3);
    if (r.chance(0.3)) c.flags = (c.flags < 0 ? ARES_FLAG_EDNS : c.flags) | ARES_FLAG_USEVC;
    if (r.chance(0.5)) c.sock_create_cb = 1 + (int)r.below(2);
    if (r.chance(0.5)) c.sock_config_cb = 1 + (int)r.below(2);
    if (r.chance(0.3)) c.local_dev = "eth0";
    if (r.chance(0.3)) c.local_ip4 = 0xC000024D;   // 192.0.2.77
    if (r.chance(0.2)) c.local_ip6 = true;
    if (r.chance(0.3)) { c.sndbuf = 4096 + (int)r.below(100000); c.rcvbuf = 4096 + (int)r.below(100000); }
    c.beh_w = {60, 4, 2, 1, 3, 1, 10, 8, 3, 2, 2, 0, 3, 3, 1};
    c.knobs["nactive"] = 1 + (int64_t)r.below(c.servers.size());
    for (auto &s : c.servers) { if (r.chance(0.15)) s.tcp_refuse = true; else if (r.chance(0.1)) s.tcp_blackhole = true; }
    // the legacy polling call is given arrays larger than the 16 sockets its bitmask can describe in half of the runs, and a share
    // of runs keeps more than 16 sockets open at once (one query per UDP socket, mostly silent servers, a burst of requests)
    if (r.chance(0.5)) c.knobs["getsock_numsocks"] = r.chance(0.2) ? 1 + (int64_t)r.below(15) : 17 + (int64_t)r.below(31);
    if (r.chance(0.12)) { c.knobs["c10_many_sockets"] = 18 + (int64_t)r.below(10); c.udp_max_queries = 1; c.beh_w = {25, 0, 0, 0, 0, 0, 0, 75, 0, 0, 0, 0, 0, 0, 0}; if (c.flags >= 0) c.flags &= ~ARES_FLAG_USEVC; c.timeout_ms = 1500 + (int)r.below(2000); c.tries = 2; }
  }
}

// ---------------------------------------------------------------------------------------------
// plans
// ---------------------------------------------------------------------------------------------
bool profile_plan_more(const RunCfg &c, Rng &r, std::vector<Step> &plan) {
  const std::string &p = c.profile;
  if (p == "C03") { gen(c, r, plan, weights({{S_REQ, 40}, {S_ADV, 45}, {S_CHUNK, 10}, {S_STALL, 1}, {S_FAULT, 4}}), 20, 120);
    // send faults: TCP would-block / partial writes, and UDP would-block (the datagram stays in the library's output buffer, where
    // the next query may be queued behind it)
    for (auto &s : plan) if (s.k == S_FAULT) { s.a = FC_SEND; s.b = 0; s.d = 0; if (r.chance(0.5)) s.c = 3; else s.c = 2 + 4 * (r.chance(0.5) ? 1 : 0) + 16 * (int64_t)r.below(20); }
    return true; }
  if (p == "C06") { gen(c, r, plan, weights({{S_REQ, 22}, {S_ADV, 50}, {S_STALL, 4}, {S_NETOP, 6}, {S_FAULT, 10}, {S_PARTITION, 3}, {S_SETSRV, 3}, {S_REINIT, 1}, {S_CHUNK, 2}}), 20, 120); return true; }
  if (p == "C07") { gen(c, r, plan, weights({{S_REQ, 25}, {S_ADV, 60}, {S_STALL, 8}, {S_NETOP, 4}, {S_PARTITION, 3}, {S_CANCEL, 1}}), 20, 140); return true; }
  if (p == "C17") {
    std::vector<int> w = weights({{S_REQ, 34}, {S_ADV, 44}, {S_STALL, 12}, {S_SRCADDR, 3}, {S_COOKIECTL, 7}});
    int n = 30 + (int)r.below(120);
    static const int64_t waits[] = {500, 5000, 30000, 60000, 119000, 119999, 120000, 120001, 121000, 150000, 299000, 300000, 301000, 600000, 86399000, 86400000, 86401000, 3600000};
    for (int i = 0; i < n; i++) {
      Step s; s.k = r.pick(w); if (!s.k) s.k = S_ADV;
      s.a = (int64_t)r.below(1000); s.b = (int64_t)r.below(1000); s.c = (int64_t)r.below(1000000); s.d = (int64_t)r.below(1000);
      if (s.k == S_ADV) { s.a = 0; s.b = 0; }
      if (s.k == S_STALL) {
        s.a = waits[r.below(sizeof waits / sizeof *waits)];
        static const int64_t secs[] = {1, 1, 2, 30, 119, 120, 121, 122, 300, 86400};
        if (r.chance(0.45)) s.a = -secs[r.below(sizeof secs / sizeof *secs)];   // negative: land exactly on a whole second (usec == 0), that many seconds on
      }
      if (s.k == S_REQ) s.d = (s.d / R_NREACT) * R_NREACT + R_NONE;
      plan.push_back(s);
    }
    if (c.knob("c17_fallback_motif", 0)) {
      // prove support, withdraw it, let a cookie-less reply be examined, wait out the regression period, ask again
      auto mk = [&](int k) { Step s; s.k = k; s.a = (int64_t)r.below(1000); s.b = (int64_t)r.below(1000); s.c = (int64_t)r.below(1000000); s.d = (int64_t)r.below(1000); if (k == S_ADV) { s.a = 0; s.b = 0; } if (k == S_REQ) s.d = (s.d / R_NREACT) * R_NREACT + R_NONE; return s; };
      if (plan.size() > 40) plan.resize(40);
      int toggles = 0; for (auto &s : plan) if (s.k == S_COOKIECTL) toggles++;
      if (toggles % 2) { Step s = mk(S_COOKIECTL); s.a = 0; plan.push_back(s); }        // support is being returned again
      for (int i = 0; i < 2; i++) plan.push_back(mk(S_REQ));
      for (int i = 0; i < 8; i++) plan.push_back(mk(S_ADV));
      { Step s = mk(S_COOKIECTL); s.a = 0; plan.push_back(s); }                           // withdrawn
      plan.push_back(mk(S_REQ));
      for (int i = 0; i < 3; i++) plan.push_back(mk(S_ADV));
      { Step s = mk(S_STALL); static const int64_t w2[] = {121000, 122000, 150000, 300000, -121, -122, -125, -300}; s.a = w2[r.below(8)]; plan.push_back(s); }
      for (int i = 0; i < 6; i++) plan.push_back(mk(S_ADV));                              // the earlier request runs out of tries
      plan.push_back(mk(S_REQ));
      for (int i = 0; i < 10; i++) plan.push_back(mk(S_ADV));
    }
    return true;
  }
  if (p == "C11") {
    gen(c, r, plan, weights({{S_REQ, 40}, {S_THINK, 18}, {S_CANCEL, 5}, {S_SETSRV, 4}, {S_REINIT, 3}, {S_WAITEMPTY, 8}, {S_QUERYINFO, 6}, {S_DUP, 3}, {S_SAVEOPT, 2}, {S_CSVROUND, 3}, {S_SORTLIST, 2}, {S_LOCAL, 2}, {S_FILE, 2}, {S_INOTIFY, 2}, {S_FAULT, 3}}), 8, 40);
    for (auto &s : plan) {
      s.thr = 1 + (int)r.below((uint64_t)(c.nthreads > 0 ? c.nthreads : 2));
      if (s.k == S_THINK) s.a = r.chance(0.6) ? (int64_t)r.below(20) : (r.chance(0.7) ? (int64_t)r.below(600) : (int64_t)r.below(8000));
      if (s.k == S_REQ && !c.allow_cancel_in_cb && (s.d % R_NREACT) == R_CANCEL) s.d += 1;
    }
    return true;
  }
  if (p == "C14B") {
    gen(c, r, plan, weights({{S_REQ, 45}, {S_THINK, 20}, {S_CANCEL, 4}, {S_SETSRV, 4}, {S_REINIT, 5}, {S_WAITEMPTY, 6}, {S_QUERYINFO, 3}, {S_DUP, 4}, {S_SAVEOPT, 2}, {S_CSVROUND, 2}, {S_SORTLIST, 2}, {S_INOTIFY, 3}}), 2, 8);
    for (auto &s : plan) { s.thr = 1 + (int)r.below((uint64_t)(c.nthreads > 0 ? c.nthreads : 1)); if (s.k == S_THINK) s.a = (int64_t)r.below(300); if (s.k == S_WAITEMPTY) s.a = 1 + 3 * (int64_t)r.below(100); }
    return true;
  }
  if (p == "C16B") {
    // one thread (1) is the only one that uses the setters, so "the last value the application set" is well defined; reloads are
    // started by both threads, by injected change notifications and by rewritten files
    gen(c, r, plan, weights({{S_REQ, 18}, {S_THINK, 14}, {S_REINIT, 22}, {S_INOTIFY, 8}, {S_FILE, 8}, {S_SETSRV, 18}, {S_SORTLIST, 8}, {S_SAVEOPT, 2}, {S_CSVROUND, 2}}), 6, 24);
    for (auto &s : plan) {
      s.thr = (s.k == S_SETSRV || s.k == S_SORTLIST) ? 1 : 1 + (int)r.below(2);
      if (s.k == S_THINK) s.a = r.chance(0.7) ? (int64_t)r.below(3) : (int64_t)r.below(300);
      if (s.k == S_SETSRV) { static const int v[] = {2, 4, 2, 4, 1, 3, 5}; s.a = v[r.below(7)] + 6 * (int64_t)r.below(36); }   // mostly a proper subset of the configured servers
      if (s.k == S_REQ) s.d = (s.d / R_NREACT) * R_NREACT + R_NONE;
    }
    return true;
  }
  if (p == "C07B") {
    // arrival times of new requests relative to the event thread's sleep; connection fresh / idle kept open / busy
    gen(c, r, plan, weights({{S_REQ, 45}, {S_THINK, 50}, {S_QUERYINFO, 5}}), 4, 24);
    for (auto &s : plan) {
      s.thr = 1 + (int)r.below((uint64_t)(c.nthreads > 0 ? c.nthreads : 1));
      if (s.k == S_THINK) { static const int64_t w[] = {0, 1, 5, 40, 300, 1500, 6000, 20000, 70000}; s.a = w[r.below(9)] + (int64_t)r.below(30); }
      if (s.k == S_REQ) s.d = (s.d / R_NREACT) * R_NREACT + R_NONE;
    }
    return true;
  }
  if (p == "C16") {
    gen(c, r, plan, weights({{S_REQ, 10}, {S_ADV, 14}, {S_DUP, 14}, {S_SAVEOPT, 14}, {S_CSVROUND, 10}, {S_REINIT, 14}, {S_FILE, 12}, {S_SETSRV, 6}, {S_SORTLIST, 3}, {S_LOCAL, 3}}), 6, 30);
    for (auto &s : plan) { if (s.k == S_REQ) s.d = (s.d / R_NREACT) * R_NREACT + R_NONE; if (s.k == S_ADV) { s.a = 0; s.b = 0; } }
    return true;
  }
  if (p == "C14") {
    // short scenarios: every allocation of each is going to be failed in turn
    gen(c, r, plan, weights({{S_REQ, 40}, {S_ADV, 36}, {S_SETSRV, 4}, {S_REINIT, 3}, {S_CANCEL, 3}, {S_DUP, 3}, {S_SAVEOPT, 3}, {S_CSVROUND, 2}, {S_SORTLIST, 2}, {S_LOCAL, 1}, {S_QUERYINFO, 3}}), 3, 12);
    if (c.knob("c14_burst", 0) > 0) {
      // burst scenario: N requests back to back, a few loop turns, then more requests while the tables are still large
      std::vector<Step> b;
      auto mk = [&](int k) { Step s; s.k = k; s.a = (int64_t)r.below(1000); s.b = (int64_t)r.below(1000); s.c = (int64_t)r.below(1000000); s.d = (int64_t)r.below(1000); return s; };
      for (int64_t i = 0; i < c.knob("c14_burst"); i++) { Step s = mk(S_REQ); s.d = (s.d / R_NREACT) * R_NREACT + R_NONE; b.push_back(s); }
      for (int i = 0; i < 2; i++) b.push_back(mk(S_ADV));
      for (int i = 0; i < 3; i++) { Step s = mk(S_REQ); s.d = (s.d / R_NREACT) * R_NREACT + R_NONE; b.push_back(s); b.push_back(mk(S_ADV)); }
      plan = b;
    }
    for (auto &s : plan) if (s.k == S_ADV) { s.a = 0; s.b = 0; }
    return true;
  }
  if (p == "C09") {
    gen(c, r, plan, weights({{S_REQ, 30}, {S_ADV, 48}, {S_STALL, 6}, {S_PARTITION, 6}, {S_HEAL, 2}, {S_SETSRV, 4}, {S_FAULT, 4}}), 25, 150);
    for (auto &s : plan) {
      if (s.k == S_REQ) s.d = (s.d / R_NREACT) * R_NREACT + R_NONE;
      if (s.k == S_FAULT) { static const int cls[] = {FC_SOCKET, FC_CONNECT, FC_RECV}; s.a = cls[r.below(3)]; s.c = 3; s.d = 0; }   // open/connect failures, receive errors on UDP (scope 3)
      if (s.k == S_STALL) s.a = r.chance(0.5) ? (int64_t)r.below(1500) : (int64_t)r.below(12000);
    }
    return true;
  }
  if (p == "C13") {
    gen(c, r, plan, weights({{S_REQ, 32}, {S_ADV, 60}, {S_FAULT, 6}, {S_SORTLIST, 2}}), 20, 130);
    for (auto &s : plan) {
      if (s.k == S_REQ) s.d = (s.d / R_NREACT) * R_NREACT + R_NONE;
      if (s.k == S_ADV) { s.a = 0; }
      if (s.k == S_FAULT) { static const int cls[] = {FC_SOCKET, FC_CONNECT, FC_GETSOCKNAME, FC_FOPEN}; s.a = cls[r.below(4)]; s.c = 0; s.d = 0; }   // source-address discovery for sorting, hosts file open
    }
    return true;
  }
  if (p == "C12") {
    if (c.knob("c12_reload", 0)) gen(c, r, plan, weights({{S_REQ, 30}, {S_ADV, 62}, {S_FILE, 4}, {S_REINIT, 4}}), 20, 120);
    else gen(c, r, plan, weights({{S_REQ, 30}, {S_ADV, 70}}), 20, 120);
    for (auto &s : plan) { if (s.k == S_REQ) s.d = (s.d / R_NREACT) * R_NREACT + R_NONE; if (s.k == S_ADV) { s.a = 0; s.b = 0; } }   // a well-behaved loop: outcomes per candidate stay definite
    return true;
  }
  if (p == "C05") {
    std::vector<int> w = weights({{S_REQ, 28}, {S_ADV, 38}, {S_FORGE, 22}, {S_STALL, 3}, {S_NETOP, 5}, {S_FAULT, 2}, {S_PARTITION, 2}});
    w[S_FORGE] = 22;   // the adversary also acts in runs without transport faults
    gen(c, r, plan, w, 25, 150);
    // (most stalls are short; one in five crosses the 120 s the cookie regression logic waits, so state that depends on "a valid
    //  cookie was seen since" is exercised under forgery too)
    for (auto &s : plan) { if (s.k == S_STALL) s.a = r.chance(0.8) ? (int64_t)r.below(2500) : 121000 + (int64_t)r.below(200000); if (s.k == S_REQ && (s.d % R_NREACT) == R_CANCEL) s.d++; }
    return true;
  }
  if (p == "C08") {
    gen(c, r, plan, weights({{S_REQ, 38}, {S_ADV, 34}, {S_STALL, 20}, {S_SETSRV, 4}, {S_REINIT, 2}, {S_NETOP, 2}}), 30, 160);
    static const int64_t waits[] = {1, 300, 998, 999, 1000, 1001, 1002, 1500, 1999, 2000, 2001, 2999, 3000, 3001, 4999, 5000, 5001, 29999, 30000, 30001, 299999, 300000, 300001, 3600001};
    for (auto &s : plan) {
      if (s.k == S_STALL) s.a = waits[r.below(sizeof waits / sizeof *waits)];
      if (s.k == S_REQ) s.d = (s.d / R_NREACT) * R_NREACT + (r.chance(0.8) ? R_NONE : R_NEWREQ);
    }
    return true;
  }
  if (p == "C20") {
    // batches of concurrently queued queries, then transport steps
    int nb = 3 + (int)r.below(8);
    for (int b = 0; b < nb; b++) {
      int q = 1 + (int)r.below(r.chance(0.3) ? 20 : 5);
      if (r.chance(0.5)) { Step s; s.k = S_CHUNK; s.a = (int64_t)r.below(8); s.b = (int64_t)r.below(100000); s.c = (int64_t)r.below(6); plan.push_back(s); }
      for (int i = 0; i < q; i++) { Step s; s.k = S_REQ; s.a = (int64_t)r.below(1000); s.b = (int64_t)r.below(1000); s.c = (int64_t)r.below(1000000); s.d = R_NONE + R_NREACT * (int64_t)r.below(50); plan.push_back(s); }
      int adv = 2 + (int)r.below(30);
      for (int i = 0; i < adv; i++) {
        Step s; s.k = S_ADV; s.a = 0; s.b = r.chance(0.85) ? 0 : 1 + (int64_t)r.below(3);
        int w = (int)r.below(100);
        if (w < 12) { s.k = S_CHUNK; s.a = (int64_t)r.below(8); s.b = (int64_t)r.below(100000); s.c = (int64_t)r.below(6); }
        else if (w < 20) { s.k = S_ZERODGRAM; s.a = (int64_t)r.below(8); }
        // would-block and short counts on TCP sockets only (scope 2): the statement is about the TCP byte stream
        else if (w < 26) { s.k = S_FAULT; s.a = r.chance(0.5) ? FC_SEND : FC_RECV; s.b = 0; s.c = 2; s.d = 0; }   // EAGAIN
        else if (w < 30) { s.k = S_FAULT; s.a = r.chance(0.5) ? FC_SEND : FC_RECV; s.b = 0; s.c = 2 + 4 + 16 * (int64_t)r.below(20); s.d = 0; }   // short count
        plan.push_back(s);
      }
    }
    return true;
  }
  if (p == "C10") { gen(c, r, plan, weights({{S_REQ, 28}, {S_ADV, 40}, {S_CANCEL, 3}, {S_STALL, 2}, {S_NETOP, 5}, {S_FAULT, 14}, {S_CHUNK, 3}, {S_SETSRV, 3}, {S_REINIT, 1}, {S_PARTITION, 1}}), 20, 140);
    if (c.knob("c10_many_sockets", 0) > 0) { std::vector<Step> b; for (int64_t i = 0; i < c.knob("c10_many_sockets"); i++) { Step s; s.k = S_REQ; s.a = (int64_t)r.below(1000); s.b = (int64_t)r.below(1000); s.c = (int64_t)r.below(1000000); s.d = ((int64_t)r.below(1000) / R_NREACT) * R_NREACT + R_NONE; b.push_back(s); } plan.insert(plan.begin(), b.begin(), b.end()); }
    for (auto &s : plan) if (s.k == S_FAULT && r.chance(0.6)) s.a = (int64_t)r.below(5);   // bias to creation-path faults: socket/setsockopt/bind/connect/getsockname
    return true; }
  return false;
}

// ---------------------------------------------------------------------------------------------
// helpers
// ---------------------------------------------------------------------------------------------
static bool name_has_prefix_ci(const dnsref::Name &full, const dnsref::Name &pre) {
  if (pre.size() > full.size()) return false;
  for (size_t i = 0; i < pre.size(); i++) {
    if (full[i].size() != pre[i].size()) return false;
    for (size_t j = 0; j < pre[i].size(); j++) if (tolower((unsigned char)full[i][j]) != tolower((unsigned char)pre[i][j])) return false;
  }
  return true;
}

// Resp that a set of delivered markers points at (-1 none, -2 mixed)
static int resp_of_markers(const std::vector<uint32_t> &ms) {
  int rid = -1;
  for (uint32_t m : ms) {
    auto it = W.marker_resp.find(m);
    if (it == W.marker_resp.end()) continue;
    if (rid == -1) rid = it->second;
    else if (rid != it->second) return -2;
  }
  return rid;
}

// ---------------------------------------------------------------------------------------------
// C03: what goes on the wire (and back to callbacks) is what was meant
// ---------------------------------------------------------------------------------------------
struct RichReq { Msg expect; };
static std::map<int, RichReq> g_rich;   // token -> expected message (reference form)

static void c03_tx(Run &run, Tx &t) {
  if (!t.decode_err.empty()) {
    run.violate("C03", "malformed_frame_on_wire", std::string(t.tcp ? "tcp" : "udp") + " frame of " + std::to_string(t.wire.size()) + " bytes at stream offset " + std::to_string(t.stream_off) + " does not decode: " + t.decode_err);
    return;
  }
  // a frame is exactly one message: bytes after its end do not serialise back to the same bytes (and on UDP they are whatever
  // else was queued in the library's output buffer)
  if (t.trailing) { run.violate("C03", "bytes_after_message_in_frame", std::string(t.tcp ? "tcp" : "udp") + " frame of " + std::to_string(t.wire.size()) + " bytes for " + t.qname_lc + ": the message ends " + std::to_string(t.trailing) + " bytes before the frame does"); return; }
  if (t.token < 0 || t.token >= (int)run.reqs.size()) return;
  const Req &r = run.reqs[(size_t)t.token];
  const Msg &m = t.msg;
  if ((m.flags & dnsref::F_QR) || m.opcode() != 0) run.violate("C03", "query_header", "transmitted message has QR/opcode " + std::to_string(m.flags));
  auto it = g_rich.find(t.token);
  if (it != g_rich.end()) {
    run.note("rich_frame_checked");
    if (t.wire.size() > 16384) run.note("rich_frame_over_16k");
    if (t.stream_off > 0) run.note("rich_frame_behind_queued_bytes");
    std::string got = dnsref::dump_msg(m, false, false, true, true), exp = dnsref::dump_msg(it->second.expect, false, false, true, true);
    if (got != exp) run.violate("C03", "frame_differs_from_request", "request built with the record setters arrives changed (offset " + std::to_string(t.stream_off) + ", " + (t.tcp ? "tcp" : "udp") + ")\n--- expected\n" + exp + "--- got\n" + got);
    return;
  }
  if (m.qd.size() != 1) { run.violate("C03", "question_count", "expected one question, saw " + std::to_string(m.qd.size())); return; }
  if (!m.an.empty() || !m.ns.empty()) run.violate("C03", "unexpected_sections", "query carries answer/authority records");
  if (r.kind == K_GETHOSTBYADDR || r.kind == K_GETNAMEINFO) return;   // reverse name checked by C13
  dnsref::Name want = dnsref::name_from_text(r.name);
  if (!name_has_prefix_ci(m.qd[0].name, want)) run.violate("C03", "qname_differs", "request " + r.name + " produced question " + dnsref::name_to_text(m.qd[0].name));
  bool addr_kind = r.kind == K_GETADDRINFO || r.kind == K_GETHOSTBYNAME;
  if (!addr_kind && m.qd[0].type != r.qtype) run.violate("C03", "qtype_differs", "request type " + std::to_string(r.qtype) + " produced " + std::to_string(m.qd[0].type));
  if (addr_kind && m.qd[0].type != 1 && m.qd[0].type != 28) run.violate("C03", "qtype_differs", "address lookup produced type " + std::to_string(m.qd[0].type));
  if (m.qd[0].klass != 1) run.violate("C03", "qclass_differs", "class " + std::to_string(m.qd[0].klass));
  if (r.kind == K_SEND_DNSREC || r.kind == K_SEARCH_DNSREC) {
    if (((m.flags & dnsref::F_RD) != 0) != (r.rd != 0)) run.violate("C03", "rd_flag_differs", "RD requested " + std::to_string(r.rd));
    if (((m.flags & dnsref::F_CD) != 0) != (r.cd != 0)) run.violate("C03", "cd_flag_differs", "CD requested " + std::to_string(r.cd));
  }
  size_t nopt = 0;
  for (auto &rr : m.ar) { if (rr.type == dnsref::T_OPT) nopt++; else run.violate("C03", "unexpected_sections", "query carries a non-OPT additional record"); }
  if (nopt > 1) run.violate("C03", "two_opt", "two OPT records");
}

static void c03_done(Run &run, Req &r) {
  if (r.status != ARES_SUCCESS || !r.got.has) return;
  if (r.kind > K_SEARCH) return;
  if (!r.got.decode_err.empty()) { run.violate("C03", "legacy_buffer_malformed", "buffer handed to the legacy callback does not decode: " + r.got.decode_err); return; }
  int rid = resp_of_markers(r.markers);
  if (rid < 0) return;
  const Resp &rs = W.resps[(size_t)rid];
  if (rs.defect || rs.tainted) return;
  std::string got = dnsref::dump_msg(r.got.msg, false, false, false, true), exp = dnsref::dump_msg(rs.msg, false, false, false, true);
  run.note("answer_roundtrip_checked");
  if (got != exp) run.violate("C03", "delivered_answer_differs", std::string("answer delivered through the ") + (r.kind == K_SEND || r.kind == K_QUERY || r.kind == K_SEARCH ? "legacy buffer" : "record") + " callback differs from what the server sent\n--- sent\n" + exp + "--- delivered\n" + got);
}

// Build a request with several records sharing suffixes through the public setters and send it.
static void c03_rich_request(Run &run, const Step &s) {
  Chan &c = run.chans[0];
  if (!c.alive || run.reqs.size() >= 300) return;
  Rng r((uint64_t)s.b * 1000003ULL + (uint64_t)s.c + run.cfg.seed);
  int token = (int)run.reqs.size();
  run.reqs.emplace_back();
  run.cbargs.emplace_back(new CbArg{&run, token});
  Req &rq = run.reqs.back();
  rq.token = token; rq.kind = K_SEND_DNSREC; rq.chan = 0; rq.t_submit = W.now_us; rq.tx_at_submit = (int)W.txs.size(); rq.accepted = true; rq.in_call = true;
  std::string zone = "t" + std::to_string(token) + ".rich" + std::to_string(r.below(4)) + ".ex1.test";
  rq.name = zone; rq.qtype = (int)(r.chance(0.5) ? 1 : 16); rq.qclass = 1;
  ares_dns_record_t *rec = nullptr;
  Msg exp;
  bool rd = r.chance(0.7);
  unsigned short opcode_flags = (unsigned short)(rd ? ARES_FLAG_RD : 0);
  if (ares_dns_record_create(&rec, 0, opcode_flags, ARES_OPCODE_QUERY, ARES_RCODE_NOERROR) != ARES_SUCCESS) { rq.accepted = false; return; }
  exp.flags = rd ? dnsref::F_RD : 0;
  ares_dns_record_query_add(rec, zone.c_str(), (ares_dns_rec_type_t)rq.qtype, ARES_CLASS_IN);
  { dnsref::Question q; q.name = dnsref::name_from_text(zone); q.type = (uint16_t)rq.qtype; q.klass = 1; exp.qd.push_back(q); }
  int nrr = 1 + (int)r.below(r.chance(0.12) ? 1400 : (r.chance(0.15) ? 300 : 12));
  bool ok = true;
  for (int i = 0; i < nrr && ok; i++) {
    ares_dns_section_t sect = r.chance(0.6) ? ARES_SECTION_AUTHORITY : ARES_SECTION_ADDITIONAL;
    static std::string prev_owner;
    std::string owner = (r.chance(0.5) ? "h" + std::to_string(r.below(6)) + "." : std::string("")) + zone;
    // (large messages: more fresh names and back-references, so that names first written beyond offset 16383 get referred to)
    double p_new = nrr > 400 ? 0.45 : 0.3, p_again = nrr > 400 ? 0.6 : 0.3;
    if (r.chance(0.12)) owner = std::to_string(r.below(30)) + "." + (r.chance(0.5) ? "2.0.192.in-addr.arpa" : zone);   // names that differ from an earlier one by one leading character (1 / 11 / 21)
    else if (r.chance(p_new)) owner = "u" + std::to_string(i) + "." + zone;          // a name that first appears here ...
    else if (i > 0 && r.chance(p_again) && !prev_owner.empty()) owner = prev_owner;   // ... and is referred to again by the next record
    prev_owner = owner;
    dnsref::RR e; e.name = dnsref::name_from_text(owner); e.klass = 1; e.ttl = (uint32_t)r.below(100000);
    ares_dns_rr_t *rr = nullptr;
    int kind = (int)r.below(7);
    ares_dns_rec_type_t t = kind == 0 ? ARES_REC_TYPE_A : kind == 1 ? ARES_REC_TYPE_AAAA : kind == 2 ? ARES_REC_TYPE_NS : kind == 3 ? ARES_REC_TYPE_MX : kind == 4 ? ARES_REC_TYPE_TXT : kind == 5 ? ARES_REC_TYPE_SRV : ARES_REC_TYPE_CNAME;
    if (ares_dns_record_rr_add(&rr, rec, sect, owner.c_str(), t, ARES_CLASS_IN, e.ttl) != ARES_SUCCESS) { ok = false; break; }
    e.type = (uint16_t)t;
    std::string tgt = "ns" + std::to_string(r.below(5)) + "." + (r.chance(0.7) ? zone : std::string("other.example"));
    // names with escaped characters, including an escaped dot directly in front of a suffix that was already written
    // (an escaped dot followed by a suffix that was written before makes the library's own writer fail with EBADNAME - the
    //  compression lookup splits at the escaped dot; kept rare, it would otherwise reject almost every large request)
    if (nrr <= 12 && r.chance(0.04)) tgt = "john\\." + zone;
    else if (r.chance(0.06)) tgt = "a\\.b\\065." + std::string(r.chance(0.5) ? zone : "other.example");
    switch (t) {
      case ARES_REC_TYPE_A: { struct in_addr a; a.s_addr = htonl(0xC6336400u + (uint32_t)r.below(250)); ares_dns_rr_set_addr(rr, ARES_RR_A_ADDR, &a); e.addr.assign((const char *)&a, 4); break; }
      case ARES_REC_TYPE_AAAA: { struct ares_in6_addr a; memset(&a, 0, sizeof a); a._S6_un._S6_u8[0] = 0x20; a._S6_un._S6_u8[1] = 0x01; a._S6_un._S6_u8[15] = (unsigned char)r.below(250); ares_dns_rr_set_addr6(rr, ARES_RR_AAAA_ADDR, &a); e.addr.assign((const char *)&a, 16); break; }
      case ARES_REC_TYPE_NS: ares_dns_rr_set_str(rr, ARES_RR_NS_NSDNAME, tgt.c_str()); e.target = dnsref::name_from_text(tgt); break;
      case ARES_REC_TYPE_CNAME: ares_dns_rr_set_str(rr, ARES_RR_CNAME_CNAME, tgt.c_str()); e.target = dnsref::name_from_text(tgt); break;
      case ARES_REC_TYPE_MX: e.pref = (uint16_t)r.below(1000); ares_dns_rr_set_u16(rr, ARES_RR_MX_PREFERENCE, e.pref); ares_dns_rr_set_str(rr, ARES_RR_MX_EXCHANGE, tgt.c_str()); e.target = dnsref::name_from_text(tgt); break;
      case ARES_REC_TYPE_SRV: e.pref = (uint16_t)r.below(100); e.weight = (uint16_t)r.below(100); e.port = (uint16_t)r.below(65535);
        ares_dns_rr_set_u16(rr, ARES_RR_SRV_PRIORITY, e.pref); ares_dns_rr_set_u16(rr, ARES_RR_SRV_WEIGHT, e.weight); ares_dns_rr_set_u16(rr, ARES_RR_SRV_PORT, e.port);
        ares_dns_rr_set_str(rr, ARES_RR_SRV_TARGET, tgt.c_str()); e.target = dnsref::name_from_text(tgt); break;
      case ARES_REC_TYPE_TXT: { std::string txt(1 + r.below(r.chance(0.2) ? 250 : 40), 'a' + (char)r.below(26)); ares_dns_rr_add_abin(rr, ARES_RR_TXT_DATA, (const unsigned char *)txt.data(), txt.size()); e.strs.push_back(txt); break; }
      default: break;
    }
    (sect == ARES_SECTION_AUTHORITY ? exp.ns : exp.ar).push_back(e);
  }
  if (ok && r.chance(0.6)) {
    ares_dns_rr_t *rr = nullptr;
    if (ares_dns_record_rr_add(&rr, rec, ARES_SECTION_ADDITIONAL, "", ARES_REC_TYPE_OPT, ARES_CLASS_IN, 0) == ARES_SUCCESS) {
      ares_dns_rr_set_u16(rr, ARES_RR_OPT_UDP_SIZE, 4096); ares_dns_rr_set_u8(rr, ARES_RR_OPT_VERSION, 0); ares_dns_rr_set_u16(rr, ARES_RR_OPT_FLAGS, 0x8000);
      dnsref::RR o; o.type = dnsref::T_OPT; o.klass = 4096; o.ttl = 0x8000;
      if (r.chance(0.4)) { unsigned char nsid[3] = {1, 2, 3}; ares_dns_rr_set_opt(rr, ARES_RR_OPT_OPTIONS, 3, nsid, 3); o.opts.push_back(dnsref::EdnsOpt{3, std::string((const char *)nsid, 3)}); }
      exp.ar.push_back(o);
    }
  }
  if (!ok) { ares_dns_record_destroy(rec); rq.accepted = false; return; }
  g_rich[token].expect = exp;
  run.note("rich_request");
  W.api_seq++;
  CbArg *arg = run.cbargs.back().get();
  extern void (*g_cb_dnsrec)(void *, ares_status_t, size_t, const ares_dns_record_t *);
  int ret = ares_send_dnsrec(c.ch, rec, g_cb_dnsrec, arg, nullptr);
  ares_dns_record_destroy(rec);
  Req &r2 = run.reqs[(size_t)token];
  r2.api_ret = ret; r2.in_call = false;
  if (r2.cb_count > 0) r2.done_sync = true;
}

// ---------------------------------------------------------------------------------------------
// C06: retries bounded, waits within the envelope
// ---------------------------------------------------------------------------------------------
struct C06State {
  std::map<std::string, int> tx_count;           // token|qname|qtype|qid -> transmissions
  std::map<std::pair<int, long long>, int> seen; // (qid, ts) attempts already checked
  bool any_success = false;
};
static C06State g_c06;

static void c06_tx(Run &run, Tx &t) {
  if (!t.decode_err.empty() || t.msg.qd.empty()) return;
  std::string k = std::to_string(t.token) + "|" + t.qname_lc + "|" + std::to_string(t.msg.qd[0].type) + "|" + std::to_string(t.msg.id);
  int n = ++g_c06.tx_count[k];
  int S = run.max_active > 0 ? run.max_active : (int)run.cfg.servers.size();
  if (run.cfg.server_source == 2) S = (int)run.cfg.servers.size();
  int T = run.eff_tries > run.max_tries_seen ? run.eff_tries : run.max_tries_seen;
  run.max_tries_seen = T;
  if (n > S * T + 5) run.violate("C06", "too_many_transmissions", "wire query " + k + " transmitted " + std::to_string(n) + " times; budget servers(" + std::to_string(S) + ") x tries(" + std::to_string(T) + ") + 5");
  if (n > S * T) run.note("tx_beyond_servers_x_tries");
  if (n == S * T + 5) run.note("tx_budget_exactly_reached");
}

static void c06_after(Run &run) {
  Chan &c = run.chans[0];
  if (!c.alive || !peek_available()) return;
  peek_qinfo q[64];
  int n = peek_queries(c.ch, q, 64);
  for (auto &e : run.srv_events) if (e.ok) { g_c06.any_success = true; break; }
  long long cap = run.eff_maxtimeout_ms > 0 ? run.eff_maxtimeout_ms : 5000;
  for (int i = 0; i < n; i++) {
    auto key = std::make_pair((int)q[i].qid, q[i].ts_us);
    if (g_c06.seen.count(key)) continue;
    g_c06.seen[key] = 1;
    long long wait_ms = (q[i].deadline_us - q[i].ts_us) / 1000;
    long long floor_ms = std::min<long long>(cap, 250);
    if (!g_c06.any_success) floor_ms = std::min<long long>(cap, std::max<long long>(250, run.eff_timeout_ms));
    run.note("attempt_wait_checked");
    if (wait_ms < floor_ms) run.violate("C06", "wait_below_floor", "attempt (qid " + std::to_string(q[i].qid) + ", try " + std::to_string(q[i].try_count) + ") waits " + std::to_string(wait_ms) + " ms, floor " + std::to_string(floor_ms) + " ms (timeout " + std::to_string(run.eff_timeout_ms) + ", maxtimeout " + std::to_string(run.eff_maxtimeout_ms) + ")");
    if (run.eff_maxtimeout_ms > 0 && wait_ms > run.eff_maxtimeout_ms) run.violate("C06", "wait_above_max", "attempt waits " + std::to_string(wait_ms) + " ms, configured maximum " + std::to_string(run.eff_maxtimeout_ms) + " ms");
    if (run.eff_maxtimeout_ms == 0) {
      size_t ns = peek_num_servers(c.ch);
      unsigned long rounds = ns ? q[i].try_count / ns : 0;
      if (rounds < 40) { long long ub = 5000LL << rounds; if (wait_ms > ub) run.violate("C06", "wait_above_envelope", "attempt in round " + std::to_string(rounds) + " waits " + std::to_string(wait_ms) + " ms > 5000 * 2^round"); }
      if (rounds >= 1) run.note("attempt_in_later_round");
    }
  }
}

// ---------------------------------------------------------------------------------------------
// C17: DNS cookies follow the RFC 7873 client state machine
// ---------------------------------------------------------------------------------------------
static std::string cookie_of(const dnsref::Msg &m) {
  if (const dnsref::RR *o = m.opt()) for (auto &op : o->opts) if (op.code == 10) return op.data;
  return std::string();
}
static bool has_cookie_opt(const dnsref::Msg &m) {
  if (const dnsref::RR *o = m.opt()) for (auto &op : o->opts) if (op.code == 10) return true;
  return false;
}
static void c17_end(Run &run) {
  if (run.cfg.profile != "C17") return;
  size_t ns = W.servers.size();
  struct SrvModel {
    std::string cc; int64_t cc_since = -1; std::string src_ip;
    bool stopped_sending = false;            // a cookie-less EDNS query went out since cc was adopted
    std::set<std::string> sc_allowed;        // server cookies the client may echo
    bool sc_known = false;                   // a valid server cookie has certainly been accepted (delivered)
    int64_t first_missing = -1;              // first cookie-less/invalid-cookie response read after support was proven
    bool saw_cookieless = false;             // a response without a valid cookie was read while support was not (or no longer) established
    bool ever_cookieless = false;            // the server has, at some point, answered without a valid cookie (every legitimate reset starts from such an answer)
    int64_t cookieless_since_valid = -1;     // time of the first cookie-less reply read since the last delivered reply with a valid cookie (survives rotations)
    bool proven = false;
  };
  std::vector<SrvModel> M(ns);
  // events in call-log order: transmissions and reads of responses
  struct Ev { uint32_t seq; int kind; int idx; int sub; };
  std::vector<Ev> evs;
  for (size_t i = 0; i < W.txs.size(); i++) evs.push_back({W.txs[i].seq, 0, (int)i, 0});
  for (size_t i = 0; i < W.resps.size(); i++) for (size_t k = 0; k < W.resps[i].read_seqs.size(); k++) evs.push_back({W.resps[i].read_seqs[k], 1, (int)i, (int)k});
  std::stable_sort(evs.begin(), evs.end(), [](const Ev &a, const Ev &b) { return a.seq < b.seq; });
  // which responses were certainly accepted: their markers reached a callback
  std::set<int> delivered_resp;
  for (auto &r : run.reqs) for (uint32_t m : r.markers) { auto it = W.marker_resp.find(m); if (it != W.marker_resp.end()) delivered_resp.insert(it->second); }
  std::map<std::string, int> badcookie_reads;   // qid|qname -> BADCOOKIE responses read on the query's current socket
  std::map<std::string, int> last_fd;           // qid|qname -> socket of the latest transmission
  std::map<std::string, std::string> last_ck;   // qid|qname -> COOKIE option of the latest transmission (what a response is validated against)
  std::map<std::string, bool> awaiting;         // qid|qname -> transmitted and no answer consumed since (a consumed answer detaches the query until it is re-sent)
  std::map<std::string, int64_t> last_tx_time;  // qid|qname -> time of the latest transmission
  std::map<std::string, int> reads_since_tx;    // qid|qname -> responses read since the latest transmission
  std::set<std::pair<int, int>> surely_examined; // (response, read index): the first response read after a transmission of its query, on that transmission's socket
  std::map<std::string, int> udp_after_three;   // qid|qname -> udp transmissions after the third BADCOOKIE
  for (auto &e : evs) {
    if (e.kind == 0) {
      const Tx &t = W.txs[(size_t)e.idx];
      if (t.server < 0 || !t.decode_err.empty() || t.msg.qd.empty()) continue;
      SrvModel &m = M[(size_t)t.server];
      std::string ck = cookie_of(t.msg);
      if (t.tcp) {
        run.note("cookie_tcp_frame_checked");
        if (has_cookie_opt(t.msg)) { run.violate("C17", "cookie_sent_over_tcp", "TCP frame for " + t.qname_lc + " carries a COOKIE option"); return; }
        continue;
      }
      std::string key = std::to_string(t.msg.id) + "|" + t.qname_lc;
      last_fd[key] = t.fd;
      last_ck[key] = ck;
      last_tx_time[key] = t.t;
      awaiting[key] = true;
      reads_since_tx[key] = 0;
      if (badcookie_reads[key] >= 3) { run.violate("C17", "no_tcp_fallback_after_badcookie", "query " + t.qname_lc + " was sent over UDP again after three BADCOOKIE answers"); return; }
      if (!t.msg.opt()) continue;                              // EDNS downgraded: nothing to say
      if (!has_cookie_opt(t.msg)) { m.stopped_sending = true; continue; }
      run.note("cookie_tx_checked");
      if (ck.size() < 8 || ck.size() > 40 || (ck.size() > 8 && ck.size() < 16)) { run.violate("C17", "malformed_cookie_sent", "COOKIE option of " + std::to_string(ck.size()) + " bytes sent for " + t.qname_lc); return; }
      std::string cc = ck.substr(0, 8), sc = ck.substr(8);
      // the client part is a per-server, per-source-address secret: the all-zero value is what a cleared cookie looks like and
      // would be the same for every server and address
      if (cc == std::string(8, '\0')) { run.violate("C17", "zero_client_cookie_sent", "the COOKIE option sent to server " + std::to_string(t.server) + " for " + t.qname_lc + " has an all-zero client part" + (sc.empty() ? "" : " (together with a server cookie)")); return; }
      if (m.cc.empty()) { m.cc = cc; m.cc_since = t.t; m.src_ip = t.src_ip; m.stopped_sending = false; }
      else if (cc != m.cc) {
        // a new client cookie: only at a permitted rotation point
        bool src_changed = t.src_ip != m.src_ip;
        bool aged = t.t - m.cc_since >= 86400LL * 1000000;
        // starting over is permitted after the client stopped sending cookies, after the regression period, or once it has read
        // a response that carried no (valid) cookie while this client cookie was in use and support was not established
        bool reset_ok = m.stopped_sending || (m.first_missing >= 0 && t.t - m.first_missing >= 120LL * 1000000) || m.saw_cookieless || (m.cookieless_since_valid >= 0 && t.t - m.cookieless_since_valid >= 120LL * 1000000) || (m.ever_cookieless && !run.cfg.knob("c17_strict_reset", 1));
        run.note("client_cookie_rotated");
        if (src_changed) run.note("client_cookie_rotated_source_change");
        if (aged) run.note("client_cookie_rotated_age");
        // an all-zero client part is what the library sends after its cookie was cleared while a valid reply was still in
        // flight (observation recorded in DESIGN.md 12.6); leaving it is never held against it
        bool was_zero = m.cc == std::string(8, '\0');
        if (was_zero) run.note("all_zero_client_cookie_seen");
        if (!src_changed && !aged && !reset_ok && !was_zero) { run.violate("C17", "client_cookie_changed", "client cookie for server " + std::to_string(t.server) + " changed after " + std::to_string((t.t - m.cc_since) / 1000000) + " s without a source-address change, a day passing or a permitted reset (query " + t.qname_lc + ", " + hexs(m.cc) + " -> " + hexs(cc) + ")"); return; }
        // a rotation for a new source address or for age keeps the "supported" verdict and a running regression timer (only
        // the server cookie is forgotten); a reset starts from scratch
        bool regression_due = (m.first_missing >= 0 && t.t - m.first_missing >= 120LL * 1000000) || (m.cookieless_since_valid >= 0 && t.t - m.cookieless_since_valid >= 120LL * 1000000);
        bool keep_support = (src_changed || aged) && m.proven && !regression_due;   // the regression check comes first in the library
        int64_t keep_missing = m.first_missing;
        m.cc = cc; m.cc_since = t.t; m.src_ip = t.src_ip; m.stopped_sending = false;
        m.sc_allowed.clear(); m.sc_known = false; m.first_missing = -1; m.proven = false; m.saw_cookieless = false;
        if (keep_support) { m.proven = true; m.first_missing = keep_missing; }
        if (!sc.empty()) { run.violate("C17", "server_cookie_kept_across_rotation", "a server cookie was sent together with a freshly generated client cookie (" + t.qname_lc + ")"); return; }
      } else if (t.src_ip != m.src_ip && run.cfg.sockfuncs != 2) {   // without a getsockname function the library cannot know its address
        run.violate("C17", "client_cookie_kept_after_source_change", "source address changed from " + m.src_ip + " to " + t.src_ip + " but the client cookie for server " + std::to_string(t.server) + " stayed the same");
        return;
      }
      if (!sc.empty()) {
        if (!m.sc_allowed.count(sc)) { run.violate("C17", "unknown_server_cookie_sent", "server cookie echoed to server " + std::to_string(t.server) + " for " + t.qname_lc + " was never received with the current client cookie"); return; }
      } else if (m.sc_known) {
        run.violate("C17", "server_cookie_not_echoed", "a server cookie from server " + std::to_string(t.server) + " had been accepted, but " + t.qname_lc + " was sent without it"); return;
      }
    } else {
      const Resp &rs = W.resps[(size_t)e.idx];
      if (rs.server < 0 || rs.tcp || rs.forged || rs.tainted) continue;
      SrvModel &m = M[(size_t)rs.server];
      std::string key = std::to_string(rs.msg.id) + "|" + (rs.tx >= 0 ? W.txs[(size_t)rs.tx].qname_lc : std::string());
      std::string ck = cookie_of(rs.msg);
      if (getenv("SIM_DBG_C17")) fprintf(stderr, "C17 read t=%lld srv=%d resp#%d rcode=%d ck=%s fd=%d proven=%d cc=%s\n", (long long)rs.read_times[(size_t)e.sub], rs.server, rs.id, rs.rcode, hexs(ck).c_str(), rs.fd, (int)m.proven, hexs(m.cc).c_str());
      // a response is judged against the client cookie of the query it answers (which may predate a rotation)
      std::string qck = last_ck.count(key) ? last_ck[key] : (rs.tx >= 0 ? cookie_of(W.txs[(size_t)rs.tx].msg) : std::string());
      bool valid = ck.size() >= 16 && ck.size() <= 40 && qck.size() >= 8 && ck.substr(0, 8) == qck.substr(0, 8);
      bool on_current_socket = last_fd.count(key) && last_fd[key] == rs.fd;
      // an earlier reply to the same transmission may have been consumed (e.g. FORMERR: the query is rewritten without EDNS and
      // parked for a resend), after which the library no longer relates further replies to a cookie it sent
      bool first_since_tx = reads_since_tx[key]++ == 0;
      // ... and read before that transmission can have timed out (the application may run the library's timers before it lets
      // it read; a query whose last attempt expired is gone by then)
      // (every ares_process* call ends with a timer pass: the query is certainly alive at this read when no earlier call began at
      //  or after the earliest instant its last attempt could expire)
      int64_t base_to = (run.eff_timeout_ms > 0 ? run.eff_timeout_ms : 2000) * 1000;
      bool before_timeout = false;
      if (last_tx_time.count(key)) {
        int64_t can_expire = last_tx_time[key] + base_to;
        before_timeout = true;
        uint32_t rseq = rs.read_seqs[(size_t)e.sub];
        // the call this read belongs to = the last one that started before it
        size_t mine = run.proc_calls.size();
        for (size_t pi = 0; pi < run.proc_calls.size(); pi++) if (run.proc_calls[pi].first <= rseq) mine = pi;
        for (size_t pi = 0; pi < run.proc_calls.size() && pi < mine; pi++) if (run.proc_calls[pi].second >= can_expire) { before_timeout = false; break; }
        if (mine == run.proc_calls.size()) before_timeout = rs.read_times[(size_t)e.sub] < can_expire;
      }
      if (first_since_tx && on_current_socket && before_timeout && qck.size() >= 8) surely_examined.insert({e.idx, e.sub});
      if (rs.rcode == 23 && ck.size() >= 8 && ck.size() <= 40 && qck.size() >= 8 && ck.substr(0, 8) == qck.substr(0, 8) && on_current_socket && awaiting[key] && first_since_tx) { badcookie_reads[key]++; awaiting[key] = false; }
      if (valid && ck.substr(0, 8) != m.cc) continue;                 // answers a query sent before the rotation: not learned from
      if (valid && !on_current_socket) { m.sc_allowed.insert(ck.substr(8)); continue; }   // may or may not have been looked at
      if (valid) {
        // (also when a cookie-less reply had been read while this client cookie was unconfirmed and the library had discarded
        //  it: a reply that echoes the cookie and carries a server cookie proves support, the cookie is reinstated)
        if (m.saw_cookieless) run.note("valid_reply_to_discarded_cookie");
        m.sc_allowed.insert(ck.substr(8));
        if (delivered_resp.count(rs.id)) { m.sc_allowed.clear(); m.sc_allowed.insert(ck.substr(8)); m.sc_known = true; m.proven = true; m.first_missing = -1; m.cookieless_since_valid = -1; run.note("server_cookie_learned"); }
      } else if (!m.proven && rs.rcode != 23) {
        if (m.cookieless_since_valid < 0) m.cookieless_since_valid = rs.read_times[(size_t)e.sub];
        m.saw_cookieless = true; m.ever_cookieless = true;
      } else if (m.proven && rs.rcode != 23) {
        m.ever_cookieless = true;
        if (m.cookieless_since_valid < 0) m.cookieless_since_valid = rs.read_times[(size_t)e.sub];
        if (m.first_missing < 0) m.first_missing = rs.read_times[(size_t)e.sub];
        bool in_window = rs.read_times[(size_t)e.sub] - m.first_missing < 120LL * 1000000;
        if (delivered_resp.count(rs.id) && in_window && !ck.empty()) { /* invalid cookie present */ }
        if (delivered_resp.count(rs.id) && in_window) {
          // was the delivering query transmitted with a cookie at all?  (after a downgrade it carries none and nothing is checked)
          bool q_has = qck.size() >= 8;   // the query as last transmitted
          if (q_has) { run.violate("C17", "cookieless_reply_accepted", "server " + std::to_string(rs.server) + " had proven cookie support; a reply " + (ck.empty() ? "without a cookie" : "with an invalid cookie") + " was accepted " + std::to_string((rs.read_times[(size_t)e.sub] - m.first_missing) / 1000000) + " s into the 120 s regression period"); return; }
        }
        run.note("cookieless_reply_after_support");
      }
    }
  }
  // bounded liveness: a query first sent later than 120 s after the first cookie-less reply must get its answer delivered
  for (auto &r : run.reqs) {
    if (!r.accepted || r.kind == K_GETADDRINFO) continue;
    if (r.cb_count == 0) continue;
    // only requests during whose life the application kept running its loop (a stalled application times queries out by itself)
    bool stalled = false;
    for (auto &st : run.stalls) if (st.second > r.t_submit && st.first < (r.t_done < 0 ? W.now_us : r.t_done) && st.second - st.first > 100000) stalled = true;
    if (stalled) continue;
    bool all_regressed_long_ago = true; bool any = false;
    for (int i = r.tx_at_submit; i < (r.tx_at_done < 0 ? (int)W.txs.size() : r.tx_at_done); i++) {
      const Tx &t = W.txs[(size_t)i];
      if (t.token != r.token || t.server < 0) continue;
      any = true;
      if (W.servers[(size_t)t.server].cfg.cookie_mode != CK_REGRESS) all_regressed_long_ago = false;
    }
    if (!any || !all_regressed_long_ago) continue;
    // find the regression start of each server used: the time regress was switched on and the first cookie-less read after it
    bool old_enough = true;
    for (size_t sidx = 0; sidx < ns; sidx++) {
      if (W.servers[sidx].cfg.cookie_mode != CK_REGRESS) continue;
      // F = first cookie-less reply read after the last reply that carried a server cookie (any such reply re-proves support
      // and restarts the regression period)
      int64_t last_valid = -1, fm = -1;
      for (auto &rs : W.resps) if (rs.server == (int)sidx && !rs.tcp && !rs.read_times.empty() && cookie_of(rs.msg).size() >= 16) for (int64_t t : rs.read_times) if (t > last_valid) last_valid = t;
      // ... counting only replies that still matched an outstanding query when they were read (others are never examined)
      auto examined = [&](const Resp &rs, int64_t t, size_t ri) {
        if (rs.tx < 0 || !surely_examined.count({rs.id, (int)ri})) return false;
        int tok = W.txs[(size_t)rs.tx].token;
        if (tok < 0 || tok >= (int)run.reqs.size()) return false;
        const Req &q = run.reqs[(size_t)tok];
        return q.t_done < 0 || q.t_done >= t;
      };
      for (auto &rs : W.resps) if (rs.server == (int)sidx && !rs.tcp && !rs.read_times.empty() && cookie_of(rs.msg).empty() && rs.rcode != 23) for (size_t ri = 0; ri < rs.read_times.size(); ri++) { int64_t t = rs.read_times[ri]; if (t > last_valid && examined(rs, t, ri) && (fm < 0 || t < fm)) { fm = t; if (getenv("SIM_DBG_C17")) fprintf(stderr, "C17 regression start candidate: resp#%d tx#%d read at %lld\n", rs.id, rs.tx, (long long)t); } }
      if (fm < 0 || r.t_submit < fm + 121LL * 1000000 || !W.servers[sidx].regress_active) old_enough = false;
      for (auto &ce : run.cookie_ctl) if (ce.server == (int)sidx && ce.t > fm) old_enough = false;   // support toggled again meanwhile: no claim
    }
    if (old_enough) run.note("fallback_after_regression_checkable");
    if (old_enough && r.status == ARES_ETIMEOUT) { run.violate("C17", "no_fallback_after_regression_period", "request " + std::to_string(r.token) + " (" + r.name + ") was first sent more than 120 s after the server stopped returning cookies, the server answered every transmission, yet the request timed out (replies still ignored)"); return; }
  }
}

// ---------------------------------------------------------------------------------------------
// C09: server selection follows the failover policy
// ---------------------------------------------------------------------------------------------
static int c09_server_of_string(const Run &run, const std::string &srv) {
  for (size_t i = 0; i < run.cfg.servers.size(); i++) {
    const std::string &ip = run.cfg.servers[i].ip;
    size_t p = srv.find(ip);
    if (p == std::string::npos) continue;
    char after = p + ip.size() < srv.size() ? srv[p + ip.size()] : 0;
    if (after == ':' || after == ']' || after == 0 || after == '%') return (int)i;
  }
  return -1;
}
static void c09_end(Run &run) {
  if (run.cfg.profile != "C09") return;
  size_t ns = run.cfg.servers.size();
  // replay the public event stream and the transmissions in call-log order
  struct Ev { uint32_t seq; int kind; int idx; };   // kind 0 = server-state event, 1 = transmission, 2 = list edit
  std::vector<Ev> evs;
  for (size_t i = 0; i < run.srv_events.size(); i++) evs.push_back({run.srv_events[i].seq, 0, (int)i});
  for (size_t i = 0; i < W.txs.size(); i++) evs.push_back({W.txs[i].seq, 1, (int)i});
  for (size_t i = 0; i < run.active_hist.size(); i++) evs.push_back({run.active_hist[i].seq, 2, (int)i});
  // kind 3 = a hard receive error the kernel model handed to the library (ICMP unreachable, reset, ...): a failure of the server
  // behind that socket which the oracle knows of independently of the library's own report
  for (size_t i = 0; i < W.calls.size(); i++) {
    const CallRec &cr = W.calls[i];
    if (cr.call != C_RECVFROM || cr.res != -1) continue;
    if (cr.err != ECONNREFUSED && cr.err != ECONNRESET && cr.err != EHOSTUNREACH && cr.err != ENETUNREACH && cr.err != ETIMEDOUT && cr.err != ECONNABORTED) continue;
    evs.push_back({cr.seq, 3, (int)i});
  }
  std::stable_sort(evs.begin(), evs.end(), [](const Ev &a, const Ev &b) { return a.seq < b.seq; });
  std::vector<long> uncounted(ns, 0);   // receive errors seen on a server's socket that the library has not yet reported as a failure
  std::vector<long> fails(ns, 0);
  std::vector<int64_t> last_fail(ns, -1);
  std::vector<int> active = run.active_hist.empty() ? std::vector<int>() : run.active_hist[0].list;
  uint32_t edit_end = 0;
  std::map<std::string, std::set<int>> group_qids;        // token|qname|type -> query ids seen
  std::map<std::string, int> qid_tx_count;                // group|qid -> transmissions
  std::map<std::string, int> probe_target;                // group|qid -> server, for transmissions classified as probes
  std::map<std::string, bool> downgraded;                  // group|qid -> saw FORMERR-without-OPT answer being sent by that server
  long chance = run.cfg.retry_chance < 0 ? 10 : run.cfg.retry_chance;
  long delay_ms = run.cfg.retry_delay < 0 ? 5000 : run.cfg.retry_delay;
  bool rotate = run.eff_rotate != 0;
  for (auto &e : evs) {
    if (getenv("SIM_DBG_C09")) {
      if (e.kind == 2) { fprintf(stderr, "C09 seq=%u edit list=[", e.seq); for (int a : run.active_hist[(size_t)e.idx].list) fprintf(stderr, "%d ", a); fprintf(stderr, "]\n"); }
      else if (e.kind == 0) fprintf(stderr, "C09 seq=%u t=%lld state %s ok=%d\n", e.seq, (long long)run.srv_events[(size_t)e.idx].t, run.srv_events[(size_t)e.idx].server.c_str(), (int)run.srv_events[(size_t)e.idx].ok);
      else { const Tx &x = W.txs[(size_t)e.idx]; fprintf(stderr, "C09 seq=%u t=%lld tx#%d srv=%d %s id=%u %s\n", e.seq, (long long)x.t, x.id, x.server, x.qname_lc.c_str(), (unsigned)x.msg.id, x.tcp ? "tcp" : "udp"); }
    }
    if (e.kind == 2) {
      // a server absent from either the old or the new list is (or will be) a fresh entry: failures reported for it while
      // the previous edit was still removing it do not carry over
      std::vector<int> prev = active;
      const Run::ActiveEv &ae = run.active_hist[(size_t)e.idx];
      active = ae.list;
      edit_end = ae.end_seq;
      if (ae.applied) {
        // the list the library reports after a successful edit is the list that was set (same set of servers)
        std::vector<int> got; size_t p0 = 0; bool unknown = false;
        while (p0 <= ae.got_csv.size() && !ae.got_csv.empty()) { size_t c = ae.got_csv.find(',', p0); std::string it = ae.got_csv.substr(p0, c == std::string::npos ? std::string::npos : c - p0); int si = c09_server_of_string(run, it); if (si < 0) unknown = true; got.push_back(si); if (c == std::string::npos) break; p0 = c + 1; }
        std::vector<int> want; for (int a : ae.list) if (std::find(want.begin(), want.end(), a) == want.end()) want.push_back(a);
        std::sort(got.begin(), got.end()); std::sort(want.begin(), want.end());   // reported in current priority order, not configuration order
        if (unknown || got != want) { std::string w; for (int a : want) w += " " + std::to_string(a); run.violate("C09", "server_list_not_applied", "after a successful ares_set_servers_ports_csv() naming servers [" + w + " ] the channel reports '" + ae.got_csv + "'"); return; }
        run.note("server_list_edit_checked");
      }
      for (size_t i = 0; i < ns; i++) if (std::find(active.begin(), active.end(), (int)i) == active.end() || std::find(prev.begin(), prev.end(), (int)i) == prev.end()) { fails[i] = 0; last_fail[i] = -1; }
      continue;
    }
    if (e.kind == 0) {
      const Run::SrvEv &se = run.srv_events[(size_t)e.idx];
      int si = c09_server_of_string(run, se.server);
      if (si < 0) { run.violate("C09", "unknown_server_in_callback", "server-state callback names '" + se.server + "', which is not a configured server"); return; }
      if (se.ok) fails[(size_t)si] = 0; else { fails[(size_t)si]++; last_fail[(size_t)si] = se.t; }
      uncounted[(size_t)si] = 0;
      continue;
    }
    if (e.kind == 3) {
      const CallRec &cr = W.calls[(size_t)e.idx];
      int si = -1; bool udp = false;
      for (size_t k = W.txs.size(); k-- > 0;) { const Tx &p = W.txs[k]; if (p.fd == cr.fd && p.seq < cr.seq) { si = p.server; udp = !p.tcp; break; } }
      if (getenv("SIM_DBG_C09")) fprintf(stderr, "C09 seq=%u t=%lld recv error %d on fd %d -> server %d udp=%d\n", cr.seq, (long long)cr.t, cr.err, cr.fd, si, (int)udp);
      if (si >= 0 && udp && std::find(active.begin(), active.end(), si) != active.end() && cr.seq > edit_end) { uncounted[(size_t)si] = 1; run.note("receive_error_with_server_known"); }
      continue;
    }
    const Tx &t = W.txs[(size_t)e.idx];
    if (t.tcp || t.server < 0 || t.msg.qd.empty() || !t.decode_err.empty()) continue;     // decisions about queued TCP frames are taken earlier than they reach the wire
    if (std::find(active.begin(), active.end(), t.server) == active.end()) {
      // while the edit is being applied, queries of a server being removed may pass through other servers that are about to be removed
      if (t.seq <= edit_end) { run.note("tx_to_server_not_in_list"); continue; }
      run.violate("C09", "attempt_to_removed_server", "transmission of " + t.qname_lc + " (id " + std::to_string(t.msg.id) + ") went to server " + std::to_string(t.server) + ", which the last completed server-list edit removed");
      return;
    }
    std::string g = std::to_string(t.token) + "|" + t.qname_lc + "|" + std::to_string(t.msg.qd[0].type);
    std::string gq = g + "|" + std::to_string(t.msg.id);
    bool new_qid = group_qids[g].insert((int)t.msg.id).second;
    int nth = ++qid_tx_count[gq];
    // (a receive error just seen on a server's socket counts against it from that instant: "each failure ... demotes it")
    auto eff = [&](int a) { return fails[(size_t)a] + uncounted[(size_t)a]; };
    long mn = -1;
    for (int a : active) if (mn < 0 || eff(a) < mn) mn = eff(a);
    bool minimal = eff(t.server) == mn;
    int first_min = -1;
    for (int a : active) if (eff(a) == mn) { first_min = a; break; }
    if (uncounted[(size_t)t.server]) run.note("selection_while_failure_unreported");
    run.note("selection_checked");
    if (mn >= 0 && fails[(size_t)t.server] > 0) run.note("selection_with_failed_servers");
    // directed resend after an EDNS downgrade goes back to the same server
    bool directed = false;
    // (the FORMERR may answer any earlier EDNS transmission of the query, not only the latest: a late reply to attempt n
    //  can arrive after attempt n+1 was sent; only the first EDNS-less transmission of the query is the directed one)
    if (nth > 1 && !t.msg.opt()) {
      bool first_noopt = true, formerr_from_here = false;
      for (size_t k = (size_t)e.idx; k-- > 0;) {
        const Tx &p = W.txs[k];
        if (p.token != t.token || p.msg.id != t.msg.id || p.qname_lc != t.qname_lc || p.msg.qd.empty() || p.msg.qd[0].type != t.msg.qd[0].type) continue;
        if (!p.msg.opt()) first_noopt = false;
        else if (p.server == t.server && (p.behaviour == B_FORMERR_NOOPT || p.behaviour == B_FORMERR_OPT)) formerr_from_here = true;
        else if (p.server == t.server) { for (int rid : p.resp_ids) if (W.resps[(size_t)rid].rcode == 1 && !W.resps[(size_t)rid].read_seqs.empty() && W.resps[(size_t)rid].read_seqs[0] < t.seq) formerr_from_here = true; }   // (a mangled answer can happen to read as FORMERR)
      }
      directed = first_noopt && formerr_from_here;
    }
    if (directed) { run.note("directed_resend"); continue; }
    if (probe_target.count(gq)) { run.violate("C09", "probe_retried", "probe copy of " + t.qname_lc + " (id " + std::to_string(t.msg.id) + ") was transmitted again (to server " + std::to_string(t.server) + ")"); return; }
    bool ok = rotate ? minimal : (t.server == first_min);
    if (ok) continue;
    // not the server the policy names: only legal as a probe copy
    bool other_qid_same_call = false;
    for (size_t k = 0; k < W.txs.size(); k++) { const Tx &p = W.txs[k]; if (p.api_seq == t.api_seq && p.qname_lc == t.qname_lc && !p.msg.qd.empty() && p.msg.qd[0].type == t.msg.qd[0].type && p.msg.id != t.msg.id) other_qid_same_call = true; }
    std::string why;
    if (!new_qid || nth != 1) why = "it is a retransmission of an existing query";
    else if (!other_qid_same_call && !(t.token >= 0 && t.token < (int)run.reqs.size() && run.reqs[(size_t)t.token].t_submit <= t.t)) why = "no user request with that question had been made";   // the user's own frame may still be queued on a connecting TCP socket; a probe copy that is itself re-sent (TC upgrade) may spawn the next probe after the user's request completed
    else if (chance == 0) why = "probing is disabled (retry chance 0)";
    else if (eff(t.server) == 0) why = "the target has no failures";
    else if (uncounted[(size_t)t.server]) why = "a receive error had just been returned on that server's socket and the query was re-sent before the failure was counted";
    else if (last_fail[(size_t)t.server] >= 0 && t.t < last_fail[(size_t)t.server] + delay_ms * 1000) why = "the retry delay (" + std::to_string(delay_ms) + " ms) since its last failure has not passed";
    if (why.empty()) { probe_target[gq] = t.server; run.note("probe_sent"); continue; }
    std::string tab; for (int a : active) tab += " s" + std::to_string(a) + "=" + std::to_string(fails[(size_t)a]);
    run.violate("C09", "attempt_to_demoted_server", "transmission of " + t.qname_lc + " (id " + std::to_string(t.msg.id) + ", #" + std::to_string(nth) + ") went to server " + std::to_string(t.server) + " with " + std::to_string(fails[(size_t)t.server]) + " consecutive failures; failure counts by server:" + tab + ", current list order [" + [&]{ std::string o; for (int a : active) o += (o.empty() ? "" : " ") + std::to_string(a); return o; }() + "]" + (rotate ? " (rotation on)" : " (rotation off, expected server " + std::to_string(first_min) + ")") + "; not a legal probe because " + why);
    return;
  }
  // probe answers never reach a user callback
  for (auto &pt : probe_target) {
    for (auto &t : W.txs) {
      std::string gq = std::to_string(t.token) + "|" + t.qname_lc + "|" + (t.msg.qd.empty() ? "" : std::to_string(t.msg.qd[0].type)) + "|" + std::to_string(t.msg.id);
      if (gq != pt.first) continue;
      for (int rid : t.resp_ids) for (uint32_t m : W.resps[(size_t)rid].markers) for (auto &r : run.reqs) if (std::find(r.markers.begin(), r.markers.end(), m) != r.markers.end()) { run.violate("C09", "probe_answer_delivered", "the answer to a probe copy of " + t.qname_lc + " reached the callback of request " + std::to_string(r.token)); return; }
    }
  }
}

// ---------------------------------------------------------------------------------------------
// C13: address lookups return exactly the addresses the answers contain
// ---------------------------------------------------------------------------------------------
static std::string ref_reverse_name(const std::string &addr) {
  char b[80];
  std::string o;
  if (addr.size() == 4) { snprintf(b, sizeof b, "%u.%u.%u.%u.in-addr.arpa", (uint8_t)addr[3], (uint8_t)addr[2], (uint8_t)addr[1], (uint8_t)addr[0]); return b; }
  static const char *hx = "0123456789abcdef";
  for (int i = 15; i >= 0; i--) { o += hx[(uint8_t)addr[(size_t)i] & 15]; o += '.'; o += hx[(uint8_t)addr[(size_t)i] >> 4]; o += '.'; }
  return o + "ip6.arpa";
}
static std::string addr_text(const std::string &a) {
  char b[64] = "?";
  if (a.size() == 4) inet_ntop(AF_INET, a.data(), b, sizeof b); else if (a.size() == 16) inet_ntop(AF_INET6, a.data(), b, sizeof b);
  return b;
}
static std::string addrs_text(std::vector<std::string> v) { std::sort(v.begin(), v.end()); std::string o; for (auto &a : v) o += (o.empty() ? "" : " ") + addr_text(a); return o; }

static void c13_done(Run &run, Req &r) {
  if (run.cfg.profile != "C13") return;
  if (r.from_callback) return;
  // ----- reverse lookups -----
  if (r.kind == K_GETHOSTBYADDR || r.kind == K_GETNAMEINFO) {
    std::string want = ref_reverse_name(r.addr_bytes);
    std::vector<const Tx *> mine;
    for (int i = r.tx_at_submit; i < (int)W.txs.size(); i++) { const Tx &t = W.txs[(size_t)i]; if (!t.msg.qd.empty() && t.msg.qd[0].type == 12 && t.qname_lc.size() > 5 && t.qname_lc.find(".arpa") != std::string::npos && t.t >= r.t_submit) { if (t.qname_lc == want) mine.push_back(&t); } }
    // any PTR question that is not the reference name of some outstanding reverse request is wrong
    for (int i = r.tx_at_submit; i < (int)W.txs.size(); i++) {
      const Tx &t = W.txs[(size_t)i];
      if (t.msg.qd.empty() || t.msg.qd[0].type != 12 || t.qname_lc.find(".arpa") == std::string::npos) continue;
      bool known = false;
      for (auto &q : run.reqs) if (!q.addr_bytes.empty() && ref_reverse_name(q.addr_bytes) == t.qname_lc) known = true;
      if (!known) { run.violate("C13", "reverse_name", "reverse lookup asked for '" + t.qname_lc + "' which is not the reverse-map name of any requested address (e.g. " + want + " for " + addr_text(r.addr_bytes) + ")"); return; }
    }
    run.note("reverse_checked");
    if (r.status == ARES_SUCCESS && r.got.has && r.kind == K_GETHOSTBYADDR) {
      // names returned = PTR targets of the accepted answer
      int rid = resp_of_markers(r.markers);
      if (rid >= 0 && !W.resps[(size_t)rid].tainted) {
        const Resp &rs = W.resps[(size_t)rid];
        std::vector<std::string> exp, got;
        for (auto &rr : rs.msg.an) if (rr.type == dnsref::T_PTR && rr.klass == 1) exp.push_back(dnsref::name_lower(dnsref::name_to_text(rr.target)));
        got.push_back(dnsref::name_lower(r.got.canon));
        for (auto &a : r.got.aliases) got.push_back(dnsref::name_lower(a));
        std::sort(exp.begin(), exp.end()); std::sort(got.begin(), got.end());
        exp.erase(std::unique(exp.begin(), exp.end()), exp.end()); got.erase(std::unique(got.begin(), got.end()), got.end());   // h_name repeats one of the aliases
        if (exp != got) { std::string e, g; for (auto &x : exp) e += x + " "; for (auto &x : got) g += x + " "; run.violate("C13", "reverse_names_differ", "PTR answer names [" + e + "] but gethostbyaddr returned [" + g + "]"); }
      }
    }
    return;
  }
  if (r.kind != K_GETADDRINFO && r.kind != K_GETHOSTBYNAME) return;
  if (r.status != ARES_SUCCESS) {
    // "none ... dropped": a lookup may not fail once the library has accepted an answer that carries addresses of a requested
    // family for one of its candidate names (the other family failing, or later steps finding nothing, does not undo that)
    if (r.status == ARES_ECANCELLED || r.status == ARES_EDESTRUCTION || r.status == ARES_ENOMEM || !run.cfg.use_tokens || r.name.empty() || r.name[0] == '!') return;
    int64_t base_to = (run.eff_timeout_ms > 0 ? run.eff_timeout_ms : 2000) * 1000;
    for (auto &rs : W.resps) {
      if (rs.tx < 0 || rs.forged || rs.tainted || rs.tc || rs.rcode != 0 || rs.acceptable != 1 || rs.read_times.empty() || rs.addrs.empty()) continue;
      const Tx &t = W.txs[(size_t)rs.tx];
      if (t.token != r.token || t.msg.qd.empty()) continue;
      int qt = t.msg.qd[0].type;
      if ((qt != 1 && qt != 28) || (r.family == AF_INET && qt != 1) || (r.family == AF_INET6 && qt != 28)) continue;
      // read while its query was certainly still waiting for it (before the attempt could expire) and before the lookup ended
      if (rs.read_times[0] - t.t >= base_to || (r.t_done >= 0 && rs.read_times[0] > r.t_done)) continue;
      bool later_tx = false;   // the reply must answer the latest transmission of that question (an earlier one may have been given up)
      for (size_t k = (size_t)rs.tx + 1; k < W.txs.size(); k++) { const Tx &x = W.txs[k]; if (x.token == t.token && x.qname_lc == t.qname_lc && !x.msg.qd.empty() && x.msg.qd[0].type == qt && x.seq < rs.read_seqs[0]) later_tx = true; }
      if (later_tx) continue;
      bool has = false; for (auto &a : rs.addrs) if ((qt == 1 && a.first.size() == 4) || (qt == 28 && a.first.size() == 16)) has = true;
      if (!has) continue;
      run.violate("C13", "answer_dropped", std::string(req_kind_name[r.kind]) + " " + r.name + " family " + (r.family == AF_INET ? "INET" : r.family == AF_INET6 ? "INET6" : "UNSPEC") + " failed with " + ares_status_name(r.status) + " although the accepted answer to " + t.qname_lc + " type " + std::to_string(qt) + " carried " + std::to_string(rs.addrs.size()) + " address(es)");
      return;
    }
    run.note("failed_lookup_checked_for_dropped_answers");
    return;
  }
  int fam = r.family;
  std::vector<std::string> got;
  for (auto &a : r.got.addrs) got.push_back(a.first);
  std::string ctx = std::string(req_kind_name[r.kind]) + " " + r.name + " family " + (fam == AF_INET ? "INET" : fam == AF_INET6 ? "INET6" : "UNSPEC");
  // family restriction (an IPv4 literal looked up with AF_INET6 is long-standing documented-by-code legacy behaviour of the
  // fake-address shortcut and is not judged; see DESIGN.md, C13)
  bool literal = r.name == "192.0.2.55" || r.name == "2001:db8::55";
  if (!literal) for (auto &a : got) if ((fam == AF_INET && a.size() != 4) || (fam == AF_INET6 && a.size() != 16)) { run.violate("C13", "wrong_family_returned", ctx + " returned " + addr_text(a)); return; }
  // ports
  for (int p : r.got.ports) if (p != r.port) { run.violate("C13", "wrong_port", ctx + " port " + std::to_string(r.port) + " returned port " + std::to_string(p)); return; }
  std::set<std::string> uniq(got.begin(), got.end());
  // literals / hosts file / loopback
  std::string base = r.name;
  if (base == "192.0.2.55" || base == "2001:db8::55") {
    Addr a = addr_parse(base, 0);
    std::string ab((const char *)a.a, a.family == AF_INET ? 4 : 16);
    if (got.size() != 1 || got[0] != ab) run.violate("C13", "literal_result", ctx + " returned [" + addrs_text(got) + "]");
    run.note("literal_checked");
    return;
  }
  if (base == "localhost" || base == "foo.localhost") {
    for (auto &a : got) { bool lo = (a.size() == 4 && (uint8_t)a[0] == 127) || (a.size() == 16 && a == std::string("\0\0\0\0\0\0\0\0\0\0\0\0\0\0\0\1", 16)); if (!lo) { run.violate("C13", "loopback_result", ctx + " returned non-loopback " + addr_text(a)); return; } }
    run.note("loopback_checked");
    return;
  }
  if (base.compare(0, 5, "hosty") == 0) {
    bool file_first = run.cfg.lookups == "f" || run.cfg.lookups == "fb";
    bool from_dns = !r.markers.empty();
    if (!from_dns) {
      std::vector<std::string> exp;
      auto add = [&](const char *ip) { Addr a = addr_parse(ip, 0); if (fam == AF_UNSPEC || fam == a.family) exp.push_back(std::string((const char *)a.a, a.family == AF_INET ? 4 : 16)); };
      if (base == "hosty1.test") { add("198.51.100.10"); add("198.51.100.11"); add("2001:db8:1::10"); }
      if (base == "hosty2.test") add("198.51.100.20");
      if (base == "hosty3.test") add("2001:db8:1::30");
      if (r.kind == K_GETHOSTBYNAME && fam == AF_UNSPEC && !got.empty()) { size_t sz = got[0].size(); std::vector<std::string> e2; for (auto &x : exp) if (x.size() == sz) e2.push_back(x); exp = e2; }   // a hostent carries one family
      std::vector<std::string> g = got; std::sort(g.begin(), g.end()); std::sort(exp.begin(), exp.end());
      run.note("hosts_file_checked");
      if (g != exp) run.violate("C13", "hosts_file_result", ctx + " (lookups " + run.cfg.lookups + ") hosts file lists [" + addrs_text(exp) + "], returned [" + addrs_text(got) + "]");
      return;
    }
    (void)file_first;
    run.note("hosts_name_answered_from_dns");
    return;   // names without a token cannot be attributed to one request when several are in flight
  }
  // ----- answered from DNS: the contributing responses are named by the markers -----
  std::set<int> rids;
  for (auto &a : got) { int m = marker_of_addr(a); if (m < 0) { run.violate("C13", "invented_address", ctx + " returned " + addr_text(a) + " which no answer carried"); return; } auto it = W.marker_resp.find((uint32_t)m); if (it == W.marker_resp.end()) { run.violate("C13", "invented_address", ctx + " returned " + addr_text(a) + " which no answer carried"); return; } rids.insert(it->second); }
  if (uniq.size() != got.size()) { run.violate("C13", "duplicated_address", ctx + " returned an address twice: [" + addrs_text(got) + "]"); return; }
  if (rids.empty()) return;
  // all contributing responses must answer the same (winning) candidate name
  std::string win;
  for (int rid : rids) { const Resp &rs = W.resps[(size_t)rid]; if (rs.tainted || rs.tx < 0) return; const std::string &qn = W.txs[(size_t)rs.tx].qname_lc; if (win.empty()) win = qn; else if (win != qn) { run.violate("C13", "mixed_candidates", ctx + " mixes addresses answered for '" + win + "' and '" + qn + "'"); return; } }
  // every accepted answer for the winning candidate and a requested family contributes all of its address records
  std::vector<std::string> exp;
  std::map<std::string, uint32_t> exp_ttl;
  bool cached = false;
  for (auto &rs : W.resps) {
    if (rs.tx < 0 || rs.forged || rs.defect || rs.tainted) continue;
    const Tx &t = W.txs[(size_t)rs.tx];
    bool untokened = token_of_name(dnsref::name_from_text(r.name)) < 0;
    if ((untokened ? (t.t < r.t_submit || t.token >= 0) : t.token != r.token) || t.qname_lc != win || t.msg.qd.empty()) continue;
    int qt = t.msg.qd[0].type;
    if (qt != 1 && qt != 28) continue;
    if (rs.read_times.empty() || rs.rcode != 0 || rs.tc) continue;
    if (!rids.count(rs.id)) {
      // an answer for the winning name that contributed nothing: fine only if it carries no address of a requested family
      bool has = false;
      for (auto &rr : rs.msg.an) if (rr.klass == 1 && ((rr.type == 1 && fam != AF_INET6) || (rr.type == 28 && fam != AF_INET))) has = true;
      if (has && r.kind == K_GETADDRINFO) {
        // duplicates of an accepted datagram are ignored by the library; only flag the first read copy
        bool dup_of_contributing = false;
        for (int rid : rids) if (W.resps[(size_t)rid].tx == rs.tx) dup_of_contributing = true;
        if (!dup_of_contributing) { run.violate("C13", "answer_dropped", ctx + ": the accepted answer to " + win + " type " + std::to_string(qt) + " carried addresses but none of them was returned"); return; }
      }
      continue;
    }
    for (auto &rr : rs.msg.an) {
      if (rr.klass != 1) continue;
      if (rr.type == 1 && fam != AF_INET6) { exp.push_back(rr.addr); exp_ttl[rr.addr] = rr.ttl; }
      if (rr.type == 28 && fam != AF_INET) { exp.push_back(rr.addr); exp_ttl[rr.addr] = rr.ttl; }
    }
  }
  if (r.in_call && r.tx_at_done == r.tx_at_submit) cached = true;
  if (r.kind == K_GETHOSTBYNAME && !got.empty()) { size_t sz = got[0].size(); std::vector<std::string> e2; for (auto &x : exp) if (x.size() == sz) e2.push_back(x); exp = e2; }
  std::vector<std::string> g = got; std::sort(g.begin(), g.end()); std::sort(exp.begin(), exp.end());
  run.note("address_set_checked");
  if (got.size() > 8) run.note("address_set_large");
  if (rids.size() > 1) run.note("address_set_two_answers");
  if (g != exp && !cached) { run.violate("C13", "address_multiset_differs", ctx + ": accepted answers for " + win + " carry [" + addrs_text(exp) + "], returned [" + addrs_text(got) + "]"); return; }
  if (r.kind == K_GETADDRINFO && !cached)
    for (auto &a : r.got.addrs) { auto it = exp_ttl.find(a.first); if (it != exp_ttl.end() && (int64_t)it->second != (int64_t)a.second) { run.violate("C13", "wrong_ttl", ctx + ": " + addr_text(a.first) + " has record TTL " + std::to_string(it->second) + " but ai_ttl " + std::to_string(a.second)); return; } }
}

// ---------------------------------------------------------------------------------------------
// C12: search-list expansion follows resolv.conf semantics
// ---------------------------------------------------------------------------------------------
enum { O_DATA = 0, O_NODATA, O_NXDOMAIN, O_SERVFAIL, O_REFUSED, O_TIMEOUT };
static int c12_beh_of(const Run &run, const std::string &qname_lc, int qtype) {
  std::vector<int> w = {(int)run.cfg.knob("c12_w_answer", 100), (int)run.cfg.knob("c12_w_servfail"), (int)run.cfg.knob("c12_w_refused"), (int)run.cfg.knob("c12_w_silent")};
  Rng br(hash_mix(hash_str(W.beh_key ^ 0xC12, qname_lc), (uint64_t)qtype));
  static const int map[4] = {B_ANSWER, B_SERVFAIL, B_REFUSED, B_SILENT};
  return map[br.pick(w)];
}
static int c12_outcome(const Run &run, const std::string &cand_text, int qtype) {
  std::string t = dnsref::name_lower(cand_text);
  if (!t.empty() && t.back() == '.') t.pop_back();
  int b = c12_beh_of(run, t, qtype);
  if (b == B_SERVFAIL) return O_SERVFAIL;
  if (b == B_REFUSED) return O_REFUSED;
  if (b == B_SILENT) return O_TIMEOUT;
  int z = W.zone_outcome(dnsref::name_from_text(t), qtype);
  return z == Z_DATA ? O_DATA : z == Z_NODATA ? O_NODATA : O_NXDOMAIN;
}
static int c12_status_of(int o) {
  switch (o) { case O_DATA: return ARES_SUCCESS; case O_NODATA: return ARES_ENODATA; case O_NXDOMAIN: return ARES_ENOTFOUND; case O_SERVFAIL: return ARES_ESERVFAIL; case O_REFUSED: return ARES_EREFUSED; default: return ARES_ETIMEOUT; }
}
static size_t dots_in(const std::string &s) { size_t n = 0; for (char ch : s) if (ch == '.') n++; return n; }
// 0 = cannot be encoded, 1 = fits, 2 = grey zone (text form fits 255 characters but the wire form needs 256/257 octets:
// malformed by RFC 1035, yet self-consistent; the statement does not say on which side "no longer fits" falls)
static int encodable(const std::string &cand) {
  std::string t = cand;
  if (!t.empty() && t.back() == '.') t.pop_back();
  size_t wire = 1;
  size_t st = 0;
  while (st <= t.size()) {
    size_t e = t.find('.', st);
    if (e == std::string::npos) e = t.size();
    size_t l = e - st;
    if (l == 0 || l > 63) return 0;
    wire += 1 + l;
    st = e + 1;
    if (e == t.size()) break;
  }
  if (wire <= 255) return 1;
  return cand.size() <= 255 ? 2 : 0;
}
struct C12Alt { std::vector<std::string> wire; std::set<int> status; };
// enumerate the acceptable walks (set-valued where the statement is silent)
static void c12_walk(const Run &run, const std::vector<std::string> &cands, size_t i, int qtype, bool addr_kind, std::vector<std::string> wire, bool any_nodata, int last, std::vector<C12Alt> &out) {
  if (out.size() > 64) return;
  if (i >= cands.size()) {
    C12Alt a; a.wire = wire;
    if (last == ARES_ENOTFOUND || last == ARES_ENODATA) a.status = {any_nodata ? ARES_ENODATA : last};
    else { a.status = {last}; if (any_nodata) a.status.insert(ARES_ENODATA); }
    out.push_back(a);
    return;
  }
  int enc = encodable(cands[i]);
  if (enc == 0 || enc == 2) { C12Alt a; a.wire = wire; a.status = {-2}; out.push_back(a); if (enc == 0) return; }
  std::string w = dnsref::name_lower(cands[i]); if (!w.empty() && w.back() == '.') w.pop_back();
  wire.push_back(w);
  int o = c12_outcome(run, cands[i], qtype);
  int st = c12_status_of(o);
  if (o == O_DATA) { C12Alt a; a.wire = wire; a.status = {ARES_SUCCESS}; out.push_back(a); return; }
  if (o == O_NODATA) { c12_walk(run, cands, i + 1, qtype, addr_kind, wire, true, st, out); return; }
  if (o == O_NXDOMAIN) { c12_walk(run, cands, i + 1, qtype, addr_kind, wire, any_nodata, st, out); return; }
  if (o == O_SERVFAIL || o == O_REFUSED) {
    bool single = dots_in(w) == 0;
    bool rooted = !cands[i].empty() && cands[i].back() == '.';
    // a name whose only dots are escaped is one label on the wire but has dots in its text: the statement does not say which
    // of the two the single-label tolerance looks at - either reading
    bool esc_single = !single && dnsref::name_from_text(w).size() == 1;
    if (single || esc_single) c12_walk(run, cands, i + 1, qtype, addr_kind, wire, any_nodata, st, out);   // documented tolerance for single-label names
    if (!single || rooted) { C12Alt a; a.wire = wire; a.status = {st}; out.push_back(a); }   // "name." : single label written absolutely - either reading
    return;
  }
  C12Alt a; a.wire = wire; a.status = {st}; out.push_back(a);
}
// C12 with reloads: the settings the system configuration supplies can change while the channel lives (rewritten resolv.conf,
// then ares_reinit); a search uses the settings in force when it was submitted
struct C12Settings { size_t ndots; std::vector<std::string> domains; };
struct C12File { int ndots = -1; bool has_search = false; std::vector<std::string> search; std::string text; };
static std::vector<std::pair<int, C12Settings>> g_c12_hist;   // (first request token, settings in force from then on)
static C12File g_c12_file;                                      // what the virtual resolv.conf says right now
static int g_c12_variant = 0;
static bool g_c12_search_seen = false;                          // a search line has been in force (it is then kept: a vanished line is KF-C16-1 territory)
static int64_t g_c12_reinits = 0;
static C12File c12_file_variant(const RunCfg &c, int variant, bool must_search) {
  C12File f;
  Rng r(hash_mix(c.seed * 0x9E3779B97F4A7C15ULL + 0xC12F, (uint64_t)variant));
  static const char *doms[] = {"corp.test", "sub.corp.test", "lan.test", "deep.er.dom.test", "re.load.test"};
  f.ndots = r.chance(0.5) ? -1 : (int)r.below(4);
  f.has_search = must_search || r.chance(0.5);
  if (f.has_search) { int n = 1 + (int)r.below(3); for (int i = 0; i < n; i++) { std::string d = doms[r.below(5)]; if (std::find(f.search.begin(), f.search.end(), d) == f.search.end()) f.search.push_back(d); } }
  f.text = "nameserver 10.99.99.99\n";
  if (f.ndots >= 0) f.text += "options ndots:" + std::to_string(f.ndots) + "\n";
  if (f.has_search) { f.text += "search"; for (auto &d : f.search) f.text += " " + d; f.text += "\n"; }
  return f;
}
static C12Settings c12_settings_now(const Run &run, const C12Settings &prev) {
  const RunCfg &c = run.cfg;
  C12Settings st = prev;
  // ndots: the option if given, else RES_OPTIONS (read again at every reload), else the file, else 1
  if (c.ndots >= 0) st.ndots = (size_t)c.ndots;
  else if (c.env.count("RES_OPTIONS")) st.ndots = (size_t)c.knob("conf_ndots", 1);
  else st.ndots = g_c12_file.ndots >= 0 ? (size_t)g_c12_file.ndots : 1;
  // search list: the option if given (non-empty), else LOCALDOMAIN, else the file's search line, else what was there before
  if (c.set_domains) st.domains = c.domains;   // the option bit was given (an empty list then means the host-name default, for good)
  else if (c.env.count("LOCALDOMAIN")) st.domains = c.domains;
  else if (g_c12_file.has_search) st.domains = g_c12_file.search;
  return st;
}
static void c12_steps(Run &r, const Step &s) {
  if (s.k != S_FILE) return;
  g_c12_variant++;
  bool sys_search = !(r.cfg.set_domains != 0) && !r.cfg.env.count("LOCALDOMAIN");
  g_c12_file = c12_file_variant(r.cfg, g_c12_variant, sys_search && g_c12_search_seen);
  W.set_file("/etc/resolv.conf", g_c12_file.text);
  r.note("system_files_rewritten");
}
static void c12_after(Run &r) {
  auto it = r.probe.find("reinit");
  int64_t n = it == r.probe.end() ? 0 : it->second;
  if (n == g_c12_reinits) return;
  g_c12_reinits = n;
  C12Settings st = c12_settings_now(r, g_c12_hist.back().second);
  bool sys_search = !(r.cfg.set_domains != 0) && !r.cfg.env.count("LOCALDOMAIN");
  if (sys_search && g_c12_file.has_search) g_c12_search_seen = true;
  g_c12_hist.push_back({(int)r.reqs.size(), st});
  r.note("search_settings_reloaded");
  if (st.ndots != g_c12_hist[g_c12_hist.size() - 2].second.ndots) r.note("search_settings_reloaded_ndots_changed");
  if (st.domains != g_c12_hist[g_c12_hist.size() - 2].second.domains) r.note("search_settings_reloaded_domains_changed");
}
static void c12_done(Run &run, Req &r) {
  if (run.cfg.profile != "C12") return;
  if (r.kind != K_SEARCH && r.kind != K_SEARCH_DNSREC && r.kind != K_GETADDRINFO && r.kind != K_GETHOSTBYNAME) return;
  if (r.from_callback) return;
  int flags = run.cfg.flags < 0 ? ARES_FLAG_EDNS : run.cfg.flags;
  int qtype = r.qtype;
  bool addr_kind = r.kind == K_GETADDRINFO || r.kind == K_GETHOSTBYNAME;
  if (addr_kind) qtype = r.family == AF_INET6 ? 28 : 1;
  // ---- reference candidate list (resolv.conf(5)) ----
  // what was configured (option, or system configuration when the option is left out) when the request was submitted, not what
  // the library says it uses
  const C12Settings *in_force = &g_c12_hist.front().second;
  for (auto &h : g_c12_hist) if (h.first <= r.token) in_force = &h.second;
  std::vector<std::string> dom = in_force->domains;
  if (dom.empty()) dom.push_back("sim.test");           // default search list: the domain part of the host name
  size_t ndots = in_force->ndots;
  std::vector<std::string> cands;
  const std::string &name = r.name;
  bool alias = false;
  if (!(flags & ARES_FLAG_NOALIASES) && name.find('.') == std::string::npos && !run.cfg.hostaliases.empty() && name.compare(0, 4, "al-t") == 0) alias = true;
  if (alias) cands.push_back(name + ".aliased.test");
  else if ((!name.empty() && name.back() == '.') || (flags & ARES_FLAG_NOSEARCH)) cands.push_back(name);
  else {
    bool first = dots_in(name) >= ndots;
    if (first) cands.push_back(name);
    for (auto &d : dom) cands.push_back(d == "." ? name + "." : name + "." + d);
    if (!first) cands.push_back(name);
  }
  std::vector<C12Alt> alts;
  c12_walk(run, cands, 0, qtype, addr_kind, {}, false, ARES_ENOTFOUND, alts);
  {
    // the root domain on the search list already yields the name as given; whether the trailing "as is" attempt is then
    // repeated is not settled by resolv.conf(5) (glibc skips it): both candidate lists are accepted
    bool root_on_list = false; for (auto &d : dom) if (d == ".") root_on_list = true;
    if (root_on_list && cands.size() > 1 && cands.back() == name && !alias && !((!name.empty() && name.back() == '.') || (flags & ARES_FLAG_NOSEARCH))) {
      std::vector<std::string> c2(cands.begin(), cands.end() - 1);
      if (std::find(c2.begin(), c2.end(), name + ".") != c2.end()) c12_walk(run, c2, 0, qtype, addr_kind, {}, false, ARES_ENOTFOUND, alts);
    }
  }
  // ---- what was seen on the wire for this request ----
  std::vector<std::string> seen;
  std::set<std::pair<std::string, int>> seen_q;   // a candidate = one query id (the same name can legitimately be a candidate twice)
  std::map<std::pair<std::string, int>, int> last_tx_of;
  for (int i = r.tx_at_submit; i < (int)W.txs.size(); i++) {
    const Tx &t = W.txs[(size_t)i];
    if (t.token != r.token || !t.decode_err.empty() || t.msg.qd.empty() || t.msg.qd[0].type != qtype) continue;
    if (seen_q.insert({t.qname_lc, (int)t.msg.id}).second) { seen.push_back(t.qname_lc); last_tx_of[{t.qname_lc, (int)t.msg.id}] = i; continue; }
    // same name and same (16-bit, randomly chosen) query id as an earlier transmission: a retry, unless that transmission had
    // already been answered definitively - then this is the next candidate, which happens to have drawn the same id
    int prev = last_tx_of[{t.qname_lc, (int)t.msg.id}];
    bool answered = false;
    if (encodable(t.qname_lc) == 1)   // (an over-long name gets no well-formed answer from the reference server)
    for (int rid : W.txs[(size_t)prev].resp_ids) {
      const Resp &rs = W.resps[(size_t)rid];
      if (rs.tainted || rs.forged || rs.tc || (rs.rcode != 0 && rs.rcode != 3) || rs.read_seqs.empty() || rs.read_seqs[0] >= t.seq) continue;
      if (rs.acceptable == 1) answered = true;
    }
    if (answered) { seen.push_back(t.qname_lc); run.note("search_candidate_same_query_id"); }
    last_tx_of[{t.qname_lc, (int)t.msg.id}] = i;
  }
  run.note("search_walk_checked");
  if (cands.size() > 1) run.note("search_walk_multi_candidate");
  if (alias) run.note("search_alias_applied");
  if (name.find('\\') != std::string::npos) { run.note("search_escaped_dot_name_checked"); if (cands.size() > 1 && dnsref::name_from_text(name).size() <= ndots && dots_in(name) >= ndots) run.note("search_escaped_dots_decide_order"); }
  if (alts.size() > 1) run.note("search_walk_set_valued");
  auto join = [](const std::vector<std::string> &v) { std::string o; for (auto &x : v) { std::string y = x.size() > 60 ? x.substr(0, 28) + ".." + x.substr(x.size() - 28) : x; o += (o.empty() ? "" : " , ") + y; } return o; };
  std::string ctx = std::string(req_kind_name[r.kind]) + " '" + (name.size() > 70 ? name.substr(0, 70) + ".." : name) + "' type " + std::to_string(qtype) + " ndots " + std::to_string(ndots) + " domains [" + join(dom) + "]" + ((flags & ARES_FLAG_NOSEARCH) ? " NOSEARCH" : "") + (alias ? " alias" : "");
  bool seq_ok = false, both_ok = false;
  // Two consecutive candidates with the same wire name (the root domain on the list) are two queries; when the second happens to
  // draw the first one's 16-bit id (and the first was not answered definitively) their transmissions cannot be told apart from
  // retries. An expected sequence then also matches when it equals what was seen up to such repeats.
  auto collapse = [](const std::vector<std::string> &v) { std::vector<std::string> o; for (auto &x : v) if (o.empty() || o.back() != x) o.push_back(x); return o; };
  auto one_id_only = [&](const std::string &qn) { std::set<int> ids; for (int i = r.tx_at_submit; i < (int)W.txs.size(); i++) { const Tx &t = W.txs[(size_t)i]; if (t.token == r.token && t.decode_err.empty() && !t.msg.qd.empty() && t.msg.qd[0].type == qtype && t.qname_lc == qn) ids.insert((int)t.msg.id); } return ids.size() == 1; };
  std::vector<const C12Alt *> matching;
  for (auto &a : alts) {
    bool same = a.wire == seen;
    if (!same && a.wire.size() > seen.size() && collapse(a.wire) == collapse(seen)) {
      same = true;
      for (size_t i = 1; i < a.wire.size(); i++) if (a.wire[i] == a.wire[i - 1] && !one_id_only(a.wire[i])) same = false;
      if (same) run.note("search_candidates_indistinguishable_same_id");
    }
    if (!same) continue;
    seq_ok = true;
    matching.push_back(&a);
    if (a.status.count(-2) ? r.status != ARES_SUCCESS : a.status.count(r.status) > 0) both_ok = true;
  }
  if (!seq_ok) { run.violate("C12", "candidate_sequence", ctx + ": expected candidates on the wire [" + join(alts.empty() ? std::vector<std::string>() : alts.back().wire) + "]" + (alts.size() > 1 ? " (or " + std::to_string(alts.size() - 1) + " permitted variant(s))" : "") + ", saw [" + join(seen) + "]"); return; }
  if (!both_ok) {
    std::string want;
    for (auto *a : matching) for (int st : a->status) want += std::string(want.empty() ? "" : " or ") + (st == -2 ? "any error" : ares_status_name(st));
    run.violate("C12", "final_status", ctx + ": candidates [" + join(seen) + "] should end with " + want + ", callback got " + ares_status_name(r.status));
  }
}

// ---------------------------------------------------------------------------------------------
// C05: only an authentic, matching response can answer a query or enter the cache
// ---------------------------------------------------------------------------------------------
static const char *defect_names(int d) {
  static std::string s;
  s.clear();
  static const char *n[] = {"wrong-id", "wrong-socket", "wrong-source-address", "wrong-qname", "wrong-qtype", "wrong-qclass", "wrong-question-count", "wrong-letter-case", "bad-cookie", "stale", "garbage", "missing-cookie"};
  for (int i = 0; i < 12; i++) if (d & (1 << i)) { if (!s.empty()) s += "+"; s += n[i]; }
  return s.c_str();
}
// judge a response at the instant the library reads it from a socket (datagrams queued in the kernel are indistinguishable
// from ones arriving now, so "the connection the query is currently assigned to" means: at this instant)
static void c05_arrival(Run &run, Resp &rs, VFd &sock) {
  if (rs.tx < 0) return;
  if (rs.forged && rs.forge_variant != 1 && rs.forge_variant != 11 && rs.forge_variant != 8 && rs.forge_variant != 9) return;   // other variants are defective whatever the socket
  const Tx &T = W.txs[(size_t)rs.tx];
  if (T.msg.qd.empty()) return;
  // latest transmission of the same wire query (same question, same id)
  // (by send attempt, not by wire order: a datagram refused with EAGAIN leaves the library's buffer later, when the query
  //  may already have been re-sent elsewhere)
  const Tx *last = nullptr; bool order_unknown = false;
  for (size_t i = W.txs.size(); i-- > 0;) {
    const Tx &x = W.txs[i];
    if (x.decode_err.empty() && !x.msg.qd.empty() && x.msg.id == T.msg.id && x.qname_lc == T.qname_lc && x.msg.qd[0].type == T.msg.qd[0].type) { if (!last || x.lseq > last->lseq) last = &x; if (x.order_unknown) order_unknown = true; }
  }
  rs.acceptable = 1;
  rs.defect &= ~DEF_STALE;
  // one of the query's datagrams left the library's buffer together with a deferred one: whether it was queued before or after the
  // transmission on the other socket cannot be observed, so no claim is made about which socket is the current one
  if (order_unknown) run.note("socket_order_unobservable");
  if (!rs.forged && (rs.defect & DEF_BAD_COOKIE)) {
    // a genuine server with broken cookie handling: its cookie only matters while the query itself carries one
    bool has = false;
    if (last) if (const dnsref::RR *o = last->msg.opt()) for (auto &op : o->opts) if (op.code == 10 && op.data.size() >= 8) has = true;
    if (!has) rs.defect &= ~DEF_BAD_COOKIE;
  }
  if (rs.forged && (rs.forge_variant == 8 || rs.forge_variant == 9)) {
    // cookie defects only count against a query whose latest transmission carries a client cookie (after the server was
    // classified as not supporting cookies the query is re-sent without one and response cookies are no longer examined)
    bool has = false;
    if (last) if (const dnsref::RR *o = last->msg.opt()) for (auto &op : o->opts) if (op.code == 10 && op.data.size() >= 8) has = true;
    if (!has) { rs.defect &= ~(DEF_BAD_COOKIE | DEF_NO_COOKIE); run.note("cookie_forgery_against_cookieless_query"); }
    if (has && (rs.defect & DEF_NO_COOKIE)) {
      // A missing cookie must be refused once the server has proven support - unless the library may legitimately have started
      // over: a cookie-less answer was read from that server (a genuine FORMERR without OPT, or an earlier forgery), no answer with
      // a valid cookie was accepted after it, and 120 s later the library sent to that server again (that send resets the state).
      int64_t now = W.now_us;
      std::set<int> delivered;
      for (auto &q : run.reqs) for (uint32_t m : q.markers) { auto it = W.marker_resp.find(m); if (it != W.marker_resp.end()) delivered.insert(it->second); }
      (void)now;
      // (ordered by call-log sequence: several packets are read at the same virtual instant)
      std::vector<uint32_t> valid_seqs;
      for (auto &x : W.resps) if (x.server == T.server && !x.tcp && !x.forged && delivered.count(x.id) && cookie_of(x.msg).size() >= 16 && !x.read_seqs.empty()) valid_seqs.push_back(x.read_seqs[0]);   // (a duplicate copy read later finds no query any more)
      bool sent_after_period = false;
      for (auto &x : W.resps) {
        if (x.server != T.server || x.tcp || x.rcode == 23 || cookie_of(x.msg).size() >= 16) continue;
        // (for the packet under judgement itself only earlier copies count: the network may have duplicated it)
        size_t nreads = x.id == rs.id && !x.read_seqs.empty() ? x.read_seqs.size() - 1 : x.read_seqs.size();
        for (size_t k = 0; k < nreads && k < x.read_times.size() && !sent_after_period; k++) {
          uint32_t sc = x.read_seqs[k]; int64_t tc = x.read_times[k];
          // a send to that server at least 120 s later, with no accepted valid cookie in between, starts over
          for (auto &t : W.txs) {
            if (t.server != T.server || t.tcp || t.seq <= sc || t.t < tc + 115LL * 1000000) continue;
            bool reset = false;
            for (uint32_t v : valid_seqs) if (v > sc && v < t.seq) reset = true;
            if (!reset) { sent_after_period = true; break; }
          }
        }
      }
      if (sent_after_period) { rs.defect &= ~DEF_NO_COOKIE; run.note("cookie_forgery_after_possible_regression"); }
    }
    return;
  }
  if (rs.forged) {
    // a copy delivered to another socket is only a defect if that socket is not the one the query currently uses
    rs.defect &= ~DEF_WRONG_SOCKET;
    if (last && last->fd != sock.fd && !order_unknown) { rs.defect |= DEF_WRONG_SOCKET; rs.acceptable = 0; rs.unacceptable_why = "delivered to socket " + std::to_string(sock.fd) + ", the query's latest transmission used socket " + std::to_string(last->fd); }
    return;
  }
  if (last && last->fd != sock.fd && !order_unknown) { rs.acceptable = 0; rs.defect |= DEF_STALE; rs.unacceptable_why = "arrived on socket " + std::to_string(sock.fd) + " but the query's latest transmission used socket " + std::to_string(last->fd); run.note("stale_reply_on_old_socket"); }
  (void)run;
}
static void c05_done(Run &run, Req &r) {
  for (uint32_t m : r.markers) {
    auto it = W.marker_resp.find(m);
    if (it == W.marker_resp.end()) continue;
    const Resp &rs = W.resps[(size_t)it->second];
    if (rs.tainted) continue;
    // the server has proven cookie support once a response carrying a server cookie was actually accepted and delivered
    if (rs.has_server_cookie && !rs.forged && !rs.defect) W.stat["cookie_proven." + std::to_string(rs.server)] = 1;
    if (rs.forged) run.note(rs.defect ? "forged_marker_seen" : "valid_copy_accepted");
    if (rs.defect & ~DEF_GARBAGE) {
      run.violate("C05", rs.forged ? "forged_packet_accepted" : "stale_reply_accepted",
                  std::string(rs.forged ? "forged" : "genuine but stale") + " packet (" + defect_names(rs.defect) + (rs.unacceptable_why.empty() ? "" : ": " + rs.unacceptable_why) + "; packet #" + std::to_string(rs.id) + " answering transmission #" + std::to_string(rs.tx) + " (socket " + std::to_string(rs.tx >= 0 ? W.txs[(size_t)rs.tx].fd : -1) + "), delivered to socket " + std::to_string(rs.fd) + ") supplied data to request " + std::to_string(r.token) + " (" + req_kind_name[r.kind] + " " + r.name + ", status " + ares_status_name(r.status) + (r.in_call && r.tx_at_done == r.tx_at_submit ? ", served from the cache" : "") + ")");
      return;
    }
  }
}
static void c05_end(Run &run) {
  // a server success may only be reported when an acceptable response from that server was read in that library call
  for (auto &e : run.srv_events) {
    if (!e.ok) continue;
    bool ok = false, any = false;
    for (auto &rs : W.resps) for (size_t i = 0; i < rs.read_api.size(); i++) if (rs.read_api[i] == e.api_seq) { any = true; if (!(rs.defect & ~DEF_GARBAGE) || rs.tainted) ok = true; }
    if (any && !ok) {
      std::string lst;
      for (auto &rs : W.resps) for (size_t i = 0; i < rs.read_api.size(); i++) if (rs.read_api[i] == e.api_seq) lst += " #" + std::to_string(rs.id) + "(" + (rs.forged ? "forged," : "") + defect_names(rs.defect) + ")";
      run.violate("C05", "success_counted_for_unacceptable_packet", "server " + e.server + " was reported successful in a library call that only read unacceptable packets:" + lst);
      return;
    }
  }
}
static void c05_forge_step(Run &run, const Step &s) {
  // choose a victim transmission: mostly a recent one whose request is still outstanding
  std::vector<int> cand;
  for (size_t i = W.txs.size(); i-- > 0 && cand.size() < 12;) {
    const Tx &t = W.txs[i];
    if (t.tcp || !t.decode_err.empty() || t.msg.qd.empty()) continue;
    bool outstanding = t.token >= 0 && t.token < (int)run.reqs.size() && run.reqs[(size_t)t.token].cb_count == 0;
    if (outstanding || (s.d % 5) == 0) cand.push_back((int)i);
  }
  if (cand.empty()) return;
  const Tx &T = W.txs[(size_t)cand[(size_t)s.a % cand.size()]];
  int variant = (int)(s.b % 12);
  int fd = T.fd;
  VFd *v = W.get(fd);
  if (variant == 1) {
    // a different open UDP socket of the channel, preferably one talking to the same server
    int alt = -1;
    for (int f2 : W.open_sockets()) { VFd *o = W.get(f2); if (o->kind == FD_UDP && f2 != fd && o->server_idx == T.server) alt = f2; }
    if (alt < 0) for (int f2 : W.open_sockets()) { VFd *o = W.get(f2); if (o->kind == FD_UDP && f2 != fd && o->server_idx >= 0) alt = f2; }
    if (alt < 0) return;
    fd = alt;
  } else if (!v || !v->open) {
    return;
  }
  int64_t at = W.now_us + 1 + (s.c % 3 == 0 ? (s.c / 3) % 400000 : 0);
  int rid = W.forge_response(T, variant, fd, at, (uint64_t)s.c * 2654435761ULL + (uint64_t)s.d);
  if (rid >= 0) { run.note("forged_packet"); if (W.resps[(size_t)rid].defect == 0) run.note("forged_but_valid_copy"); }
}

// ---------------------------------------------------------------------------------------------
// C08: the cache only replays fresh, matching, successful answers
// ---------------------------------------------------------------------------------------------
static std::string cache_name_key(const std::string &n) {
  std::string k = dnsref::name_lower(n);
  if (!k.empty() && k.back() == '.') k.pop_back();
  return k;
}
// lifetime the response's own TTLs allow, in seconds (UINT32_MAX = unlimited, 0 = not cacheable)
static uint64_t resp_ttl_limit(const Resp &rs) {
  if (rs.rcode == 3) {
    for (auto &rr : rs.msg.ns) if (rr.type == dnsref::T_SOA) return std::min<uint64_t>(rr.ttl, rr.soa[4]);
    return 0;
  }
  uint64_t m = 0xFFFFFFFFull;
  for (auto *sec : {&rs.msg.an, &rs.msg.ns, &rs.msg.ar}) for (auto &rr : *sec) { if (rr.type == dnsref::T_OPT || rr.type == dnsref::T_SOA || rr.type == 24) continue; if (rr.ttl < m) m = rr.ttl; }
  return m;
}
static bool c08_resp_matches_request(const Run &run, const Resp &rs, const Req &r, int want_qtype, std::string &why) {
  if (rs.tx < 0) { why = "response answers no transmission"; return false; }
  const Tx &tx = W.txs[(size_t)rs.tx];
  if (tx.msg.qd.empty()) { why = "no question"; return false; }
  if (tx.msg.opcode() != 0) { why = "opcode"; return false; }
  if (((tx.msg.flags & dnsref::F_RD) != 0) != (r.rd != 0)) { why = "RD flag differs"; return false; }
  if (((tx.msg.flags & dnsref::F_CD) != 0) != (r.cd != 0)) { why = "CD flag differs"; return false; }
  if (tx.msg.qd[0].type != want_qtype) { why = "type differs (" + std::to_string(tx.msg.qd[0].type) + " vs " + std::to_string(want_qtype) + ")"; return false; }
  if (tx.msg.qd[0].klass != r.qclass) { why = "class differs"; return false; }
  if (cache_name_key(dnsref::name_to_text(tx.msg.qd[0].name)) != cache_name_key(r.name)) { why = "name differs (" + tx.qname_lc + " vs " + r.name + ")"; return false; }
  (void)run;
  return true;
}
// Is replaying rs at W.now_us allowed? fills D range info
static bool c08_fresh(const Run &run, const Resp &rs, int64_t max_ttl, std::string &why, int64_t &elapsed_floor_min, int64_t &elapsed_floor_max) {
  if (rs.defect) { why = "source packet was not an acceptable response"; return false; }
  if (rs.rcode != 0 && rs.rcode != 3) { why = "rcode " + std::to_string(rs.rcode) + " must never be replayed"; return false; }
  if (rs.tc) { why = "truncated response must never be replayed"; return false; }
  if (max_ttl <= 0) { why = "cache maximum is zero"; return false; }
  uint64_t L = std::min<uint64_t>((uint64_t)max_ttl, resp_ttl_limit(rs));
  if (rs.read_times.empty()) { why = "the response was never read from a socket"; return false; }
  bool ok = false;
  std::string last;
  elapsed_floor_min = -1; elapsed_floor_max = -1;
  for (size_t i = 0; i < rs.read_times.size(); i++) {
    int64_t t = rs.read_times[i];
    int64_t D = W.now_us / 1000000 - t / 1000000;
    if ((uint64_t)D >= L) { last = "cached " + std::to_string(D) + " whole seconds, lifetime allowed " + std::to_string(L) + " s (max " + std::to_string(max_ttl) + ")"; continue; }
    bool flushed = false;
    for (auto &e : run.srv_list_events) if ((e.kind == 1 || e.kind == 2) && e.seq > rs.read_seqs[i]) { flushed = true; last = std::string(e.kind == 2 ? "a reinit" : "a server-list change") + " happened after the response was cached"; }
    if (flushed) continue;
    ok = true;
    int64_t e_us = W.now_us - t;
    int64_t fl = e_us / 1000000;
    if (elapsed_floor_min < 0 || fl < elapsed_floor_min) elapsed_floor_min = fl;
    if (fl + 1 > elapsed_floor_max) elapsed_floor_max = fl + 1;
  }
  if (!ok) why = last;
  return ok;
}

static void c08_done(Run &run, Req &r) {
  if (run.cfg.profile != "C08") return;
  if (!r.done_sync && r.in_call == false) {}
  bool sync = r.in_call;   // completed before the accepting call returned
  if (!sync || r.tx_at_done != r.tx_at_submit) return;
  bool dns_kind = r.kind <= K_SEARCH;
  if (dns_kind && !r.got.has) return;                       // synchronous failure, not a replay
  if (!dns_kind && r.status != ARES_SUCCESS) return;
  if (r.kind == K_GETHOSTBYADDR || r.kind == K_GETNAMEINFO) return;
  run.note("cache_hit");
  int64_t max_ttl = run.cfg.qcache_max_ttl < 0 ? 3600 : run.cfg.qcache_max_ttl;
  int want_qtype = r.qtype;
  if (!dns_kind) want_qtype = r.family == AF_INET6 ? 28 : 1;
  int rid = resp_of_markers(r.markers);
  std::string why;
  int64_t emin = -1, emax = -1;
  const Resp *src = nullptr;
  if (rid == -2) { run.note("cache_hit_mixed_sources"); return; }
  if (rid >= 0) {
    const Resp &rs = W.resps[(size_t)rid];
    if (rs.tainted) { run.note("cache_hit_tainted_source"); return; }
    if (!c08_resp_matches_request(run, rs, r, want_qtype, why)) { run.violate("C08", "hit_wrong_key", "request " + std::string(req_kind_name[r.kind]) + " " + r.name + " type " + std::to_string(want_qtype) + " answered without traffic from a response cached for a different key: " + why); return; }
    if (!c08_fresh(run, rs, max_ttl, why, emin, emax)) { run.violate("C08", "hit_not_allowed", "request " + std::string(req_kind_name[r.kind]) + " " + r.name + " answered without traffic, but " + why); return; }
    src = &rs;
  } else {
    // no marker in the delivered data (e.g. empty NODATA answer): some eligible cached response must exist
    bool any = false;
    for (auto &rs : W.resps) {
      std::string w2; int64_t a, b;
      if (c08_resp_matches_request(run, rs, r, want_qtype, w2) && c08_fresh(run, rs, max_ttl, w2, a, b)) { any = true; break; }
      // a response corrupted in flight (a header bit may have turned NXDOMAIN into an empty NOERROR answer, ...) that answered the
      // same question: what the library cached from it is not known
      if (rs.tainted && !rs.read_times.empty() && rs.tx >= 0) {
        const Tx &t = W.txs[(size_t)rs.tx];
        std::string rn = dnsref::name_lower(r.name); if (!rn.empty() && rn.back() == '.') rn.pop_back();
        if (!t.msg.qd.empty() && t.qname_lc == rn && t.msg.qd[0].type == want_qtype) { any = true; run.note("cache_hit_possibly_tainted_source"); break; }
      }
    }
    if (!any) run.violate("C08", "hit_without_source", "request " + std::string(req_kind_name[r.kind]) + " " + r.name + " answered without traffic although no eligible response was cached for that key");
    return;
  }
  if (emin == 0 && emax >= 1) run.note("cache_hit_within_first_second");
  if (emin >= 1) run.note("cache_hit_after_a_second");
  // TTLs visible in the delivered data must be reduced by the time spent cached
  auto ttl_ok = [&](uint32_t orig, int64_t got) {
    for (int64_t d = emin; d <= emax; d++) { int64_t exp = (int64_t)orig - d; if (exp < 0) exp = 0; if (got == exp) return true; }
    return false;
  };
  if (dns_kind && r.got.decode_err.empty()) {
    const std::vector<dnsref::RR> *gs[3] = {&r.got.msg.an, &r.got.msg.ns, &r.got.msg.ar}, *os[3] = {&src->msg.an, &src->msg.ns, &src->msg.ar};
    for (int s2 = 0; s2 < 3; s2++) {
      if (gs[s2]->size() != os[s2]->size()) continue;   // content equality is C03's business
      for (size_t i = 0; i < gs[s2]->size(); i++) {
        const dnsref::RR &g = (*gs[s2])[i], &o = (*os[s2])[i];
        if (g.type == dnsref::T_OPT || g.type != o.type) continue;
        run.note("cache_ttl_checked");
        if (!ttl_ok(o.ttl, g.ttl)) { run.violate("C08", "ttl_not_reduced", std::string("cache hit through ") + req_kind_name[r.kind] + ": record type " + std::to_string(g.type) + " shows TTL " + std::to_string(g.ttl) + ", original " + std::to_string(o.ttl) + ", cached for " + std::to_string(emin) + ".." + std::to_string(emax) + " s"); return; }
      }
    }
  } else if (r.kind == K_GETADDRINFO) {
    for (auto &a : r.got.addrs) {
      for (auto &oa : src->addrs) if (oa.first == a.first) {
        run.note("cache_ttl_checked");
        if (!ttl_ok(oa.second, a.second)) { run.violate("C08", "ttl_not_reduced", "cache hit through getaddrinfo: ai_ttl " + std::to_string(a.second) + ", original " + std::to_string(oa.second) + ", cached for " + std::to_string(emin) + ".." + std::to_string(emax) + " s"); return; }
      }
    }
  }
}

// ---------------------------------------------------------------------------------------------
// C10: interest invariants at step boundaries
// ---------------------------------------------------------------------------------------------
static void c10_after(Run &run) {
  Chan &c = run.chans[0];
  if (!c.alive || W.fd_reuse) return;
  for (int fd : W.open_sockets()) {
    VFd *v = W.get(fd);
    if (v->server_idx < 0 && !v->connected && v->tstate == TS_CREATED) continue;
    auto it = c.interest.find(fd);
    bool rd = it != c.interest.end() && it->second.first, wr = it != c.interest.end() && it->second.second;
    // a fast-open TCP connection whose first write was deferred through the pending-write notification has not been
    // used at all yet; the application has been told to call ares_process_pending_write() instead
    if (v->kind == FD_TCP && v->n_send_ok == 0 && c.pending_write > 0) { run.note("tfo_conn_awaiting_pending_write"); continue; }
    // a fast-open socket on which no send was ever attempted has no connection attempt in flight (the SYN goes out with the
    // first data): no event can occur on it, so there is nothing to watch yet
    if (v->kind == FD_TCP && v->tfo && v->n_send_calls == 0) { run.note("tfo_conn_never_written"); continue; }
    if (!rd) run.violate("C10", "open_socket_not_watched", "socket " + std::to_string(fd) + " is open but the application was not told to watch it for reading");
    // a pending connect (plain, or fast-open once the SYN data went out) is reported by a write event, which the library
    // needs in order to send anything queued meanwhile
    if (v->kind == FD_TCP && v->tstate == TS_CONNECTING && (!v->tfo || v->n_send_ok > 0) && !wr) run.violate("C10", "connect_pending_not_watched", "tcp socket " + std::to_string(fd) + (v->tfo ? " (fast open, SYN data sent)" : "") + " has a pending connect but no write interest is announced");
    if (v->kind == FD_TCP && v->tstate == TS_ESTABLISHED && v->write_blocked && !wr) run.violate("C10", "partial_write_not_watched", "tcp socket " + std::to_string(fd) + " has unsent data after a short/blocked write but no write interest was announced");
    if (rd && W.readable(*v)) run.note("readable_while_watched");
  }
}

// ---------------------------------------------------------------------------------------------
// C20: outcome does not depend on how the transport chops or delays bytes (differential)
// ---------------------------------------------------------------------------------------------
struct C20Snap {
  bool valid = false;
  std::vector<std::string> per_req;                     // token -> "cb|status|rcode|an|qname"
  std::map<std::string, int> frames;                    // multiset of (server|tcp|qname|qtype) seen at the servers
};
static C20Snap g_c20_ref;

static std::string c20_req_summary(const Req &r) {
  // (the number of timeouts the callback reports is part of the outcome: in this profile every server answers, latencies are
  //  far below the 5 s timeout and the clock never stalls, so a timeout can only come from bytes the library left unsent or unread)
  std::string s = std::to_string(r.cb_count) + "|" + ares_status_name(r.status) + "|to" + std::to_string(r.timeouts);
  if (r.got.has && r.got.decode_err.empty() && r.kind <= K_SEARCH) {
    s += "|rc" + std::to_string(r.got.msg.rcode()) + "|an" + std::to_string(r.got.msg.an.size()) + "|ns" + std::to_string(r.got.msg.ns.size()) + "|tc" + std::to_string((r.got.msg.flags & dnsref::F_TC) ? 1 : 0);
    std::string types; for (auto &rr : r.got.msg.an) types += std::to_string(rr.type) + ",";
    s += "|" + types;
  } else if (r.got.has) {
    s += "|addrs" + std::to_string(r.got.addrs.size()) + "|cn" + std::to_string(r.got.cnames.size() + r.got.aliases.size());
  }
  return s;
}
static void c20_snapshot(const Run &run, C20Snap &sn) {
  sn = C20Snap(); sn.valid = true;
  for (auto &r : run.reqs) sn.per_req.push_back(r.accepted ? c20_req_summary(r) : std::string("-"));
  for (auto &t : W.txs) if (t.decode_err.empty() && !t.msg.qd.empty()) sn.frames[std::to_string(t.server) + "|" + (t.tcp ? "tcp" : "udp") + "|" + t.qname_lc + "|" + std::to_string(t.msg.qd[0].type)]++;
}
static void c20_end(Run &run) {
  if (run.cfg.knob("reference")) { c20_snapshot(run, g_c20_ref); return; }
  if (!g_c20_ref.valid) return;
  C20Snap cur; c20_snapshot(run, cur);
  run.note("differential_compared");
  if (getenv("SIM_DUMP_TX")) for (size_t i = 0; i < cur.per_req.size() && i < g_c20_ref.per_req.size(); i++) fprintf(stderr, "REQ %zu ref[%s] seg[%s]\n", i, g_c20_ref.per_req[i].c_str(), cur.per_req[i].c_str());
  if (cur.per_req.size() != g_c20_ref.per_req.size()) { run.violate("C20", "request_count_differs", "reference run issued " + std::to_string(g_c20_ref.per_req.size()) + " requests, segmented run " + std::to_string(cur.per_req.size())); return; }
  for (size_t i = 0; i < cur.per_req.size(); i++)
    if (cur.per_req[i] != g_c20_ref.per_req[i]) { run.violate("C20", "outcome_differs", "request " + std::to_string(i) + " (" + req_kind_name[run.reqs[i].kind] + " " + run.reqs[i].name + "): unsegmented transfer gave [" + g_c20_ref.per_req[i] + "], segmented/partial transfer gave [" + cur.per_req[i] + "]"); return; }
  // the questions that reached any server must be the same set (how often and where a question is retransmitted depends on
  // timing, which segmentation legitimately changes; frame integrity itself is checked on every frame by the C03 observer)
  std::set<std::string> qa, qb;
  for (auto &p : g_c20_ref.frames) qa.insert(p.first.substr(p.first.find('|', p.first.find('|') + 1) + 1));
  for (auto &p : cur.frames) qb.insert(p.first.substr(p.first.find('|', p.first.find('|') + 1) + 1));
  if (qa != qb) {
    std::string d;
    for (auto &x : qa) if (!qb.count(x)) { d = x + " reached a server only with unsegmented transfer"; break; }
    if (d.empty()) for (auto &x : qb) if (!qa.count(x)) { d = x + " reached a server only with segmented transfer"; break; }
    run.violate("C20", "questions_at_server_differ", d);
  }
  g_c20_ref.valid = false;
}
static void c20_after(Run &run) {
  // TC handling: a truncated UDP answer must lead to a TCP transmission unless IGNTC (checked at the end through the differential and here directly)
  (void)run;
}

// ---------------------------------------------------------------------------------------------
// C16: configuration saved, duplicated and re-applied losslessly; user settings win
// ---------------------------------------------------------------------------------------------
struct C16Srv { int family; std::string addr; int udp, tcp; bool operator==(const C16Srv &o) const { return family == o.family && addr == o.addr && udp == o.udp && tcp == o.tcp; } };
struct C16Snap {
  std::map<std::string, std::string> eff;     // effective settings (white-box read), empty if unavailable
  std::string csv;                            // ares_get_servers_csv
  std::vector<C16Srv> ports;                  // ares_get_servers_ports
  int save_rc = -1, mask = 0;
  std::map<std::string, std::string> saved;   // what ares_save_options reports, per option bit in its mask
};
static std::string c16_srvs_text(const std::vector<C16Srv> &v) {
  std::string o;
  for (auto &x : v) { char b[64] = ""; inet_ntop(x.family, x.addr.data(), b, sizeof b); o += (o.empty() ? "" : ",") + std::string(b) + "/" + std::to_string(x.udp) + "/" + std::to_string(x.tcp); }
  return "[" + o + "]";
}
static void c16_snap(ares_channel_t *ch, C16Snap &sn) {
  sn = C16Snap();
  char buf[4096];
  size_t n = peek_full(ch, buf, sizeof buf);
  std::string txt(buf, n);
  size_t p0 = 0;
  while (p0 < txt.size()) { size_t e = txt.find('\n', p0); if (e == std::string::npos) e = txt.size(); std::string ln = txt.substr(p0, e - p0); size_t eq = ln.find('='); if (eq != std::string::npos) sn.eff[ln.substr(0, eq)] = ln.substr(eq + 1); p0 = e + 1; }
  char *csv = ares_get_servers_csv(ch);
  sn.csv = csv ? csv : "(null)";
  if (csv) ares_free_string(csv);
  struct ares_addr_port_node *nodes = nullptr;
  if (ares_get_servers_ports(ch, &nodes) == ARES_SUCCESS) {
    for (auto *q = nodes; q; q = q->next) { C16Srv x; x.family = q->family; x.addr.assign((const char *)&q->addr, q->family == AF_INET ? 4 : 16); x.udp = q->udp_port; x.tcp = q->tcp_port; sn.ports.push_back(x); }
    if (nodes) ares_free_data(nodes);
  }
  struct ares_options o; memset(&o, 0, sizeof o);
  sn.save_rc = ares_save_options(ch, &o, &sn.mask);
  if (sn.save_rc == ARES_SUCCESS) {
    int m = sn.mask;
    if (m & ARES_OPT_FLAGS) sn.saved["flags"] = std::to_string(o.flags);
    if (m & ARES_OPT_TIMEOUTMS) sn.saved["timeout"] = std::to_string(o.timeout);
    if (m & ARES_OPT_TRIES) sn.saved["tries"] = std::to_string(o.tries);
    if (m & ARES_OPT_NDOTS) sn.saved["ndots"] = std::to_string(o.ndots);
    if (m & ARES_OPT_MAXTIMEOUTMS) sn.saved["maxtimeout"] = std::to_string(o.maxtimeout);
    if (m & ARES_OPT_DOMAINS) { std::string d; for (int i = 0; i < o.ndomains; i++) d += (i ? "," : "") + std::string(o.domains[i] ? o.domains[i] : "(null)"); sn.saved["domains"] = d; }
    if (m & ARES_OPT_LOOKUPS) sn.saved["lookups"] = o.lookups ? o.lookups : "(null)";
    if (m & ARES_OPT_SORTLIST) sn.saved["nsort"] = std::to_string(o.nsort);
    if (m & ARES_OPT_EDNSPSZ) sn.saved["ednspsz"] = std::to_string(o.ednspsz);
    if (m & ARES_OPT_UDP_MAX_QUERIES) sn.saved["udp_max_queries"] = std::to_string(o.udp_max_queries);
    if (m & ARES_OPT_QUERY_CACHE) sn.saved["qcache_max_ttl"] = std::to_string(o.qcache_max_ttl);
    if (m & ARES_OPT_SERVER_FAILOVER) { sn.saved["retry_chance"] = std::to_string(o.server_failover_opts.retry_chance); sn.saved["retry_delay"] = std::to_string(o.server_failover_opts.retry_delay); }
    if (m & ARES_OPT_SOCK_SNDBUF) sn.saved["sndbuf"] = std::to_string(o.socket_send_buffer_size);
    if (m & ARES_OPT_SOCK_RCVBUF) sn.saved["rcvbuf"] = std::to_string(o.socket_receive_buffer_size);
    if (m & ARES_OPT_SERVERS) { std::string d; for (int i = 0; i < o.nservers; i++) { char b[32] = ""; inet_ntop(AF_INET, &o.servers[i], b, sizeof b); d += (i ? "," : "") + std::string(b); } sn.saved["servers_v4"] = d; }
    sn.saved["rotate"] = (m & ARES_OPT_ROTATE) ? "1" : ((m & ARES_OPT_NOROTATE) ? "0" : "unset");
  }
  ares_destroy_options(&o);
}
// option bit(s) that make a field the application's
static int c16_bit_of(const std::string &k) {
  if (k == "flags") return ARES_OPT_FLAGS;
  if (k == "timeout") return ARES_OPT_TIMEOUTMS;
  if (k == "tries") return ARES_OPT_TRIES;
  if (k == "ndots") return ARES_OPT_NDOTS;
  if (k == "maxtimeout") return ARES_OPT_MAXTIMEOUTMS;
  if (k == "rotate") return ARES_OPT_ROTATE | ARES_OPT_NOROTATE;
  if (k == "sndbuf") return ARES_OPT_SOCK_SNDBUF;
  if (k == "rcvbuf") return ARES_OPT_SOCK_RCVBUF;
  if (k == "domains") return ARES_OPT_DOMAINS;
  if (k == "sortlist") return ARES_OPT_SORTLIST;
  if (k == "lookups") return ARES_OPT_LOOKUPS;
  if (k == "ednspsz") return ARES_OPT_EDNSPSZ;
  if (k == "qcache_max_ttl") return ARES_OPT_QUERY_CACHE;
  if (k == "udp_max_queries") return ARES_OPT_UDP_MAX_QUERIES;
  if (k == "retry_chance" || k == "retry_delay") return ARES_OPT_SERVER_FAILOVER;
  return 0;
}
// what the application asked for at init (same text form as the white-box read)
static std::map<std::string, std::string> c16_user_expect(const Run &run) {
  const RunCfg &c = run.cfg;
  std::map<std::string, std::string> u;
  if (c.flags >= 0) u["flags"] = std::to_string(c.flags);
  if (c.timeout_ms >= 0) u["timeout"] = std::to_string(c.timeout_ms);
  if (c.tries >= 0) u["tries"] = std::to_string(c.tries);
  if (c.ndots >= 0) u["ndots"] = std::to_string(c.ndots);
  if (c.maxtimeout_ms >= 0) u["maxtimeout"] = std::to_string(c.maxtimeout_ms);
  if (c.rotate >= 0) u["rotate"] = std::to_string(c.rotate);
  if (c.udp_max_queries >= 0) u["udp_max_queries"] = std::to_string(c.udp_max_queries);
  if (c.set_domains && !c.domains.empty()) { std::string d; for (size_t i = 0; i < c.domains.size(); i++) d += (i ? "," : "") + c.domains[i]; u["domains"] = d; }   // an empty list counts as not supplied
  if (!c.lookups.empty()) u["lookups"] = c.lookups;
  if (c.qcache_max_ttl >= 0) u["qcache_max_ttl"] = std::to_string(c.qcache_max_ttl);
  if (c.retry_chance >= 0) { u["retry_chance"] = std::to_string(c.retry_chance); u["retry_delay"] = std::to_string(c.retry_delay < 0 ? 0 : c.retry_delay); }
  if (c.ednspsz >= 0) u["ednspsz"] = std::to_string(c.ednspsz);
  if (c.sndbuf >= 0) u["sndbuf"] = std::to_string(c.sndbuf);
  if (c.rcvbuf >= 0) u["rcvbuf"] = std::to_string(c.rcvbuf);
  return u;
}
static std::vector<C16Srv> c16_expected_servers(const Run &run) {
  std::vector<C16Srv> v;
  for (int i : run.active) {
    const ServerSpec &sv = run.cfg.servers[(size_t)i];
    C16Srv x; bool v6 = sv.ip.find(':') != std::string::npos;
    x.family = v6 ? AF_INET6 : AF_INET;
    char b[16]; inet_pton(x.family, sv.ip.c_str(), b); x.addr.assign(b, v6 ? 16 : 4);
    x.udp = sv.udp_port; x.tcp = sv.tcp_port;
    bool dup = false; for (auto &y : v) if (y == x) dup = true;
    if (!dup) v.push_back(x);
  }
  return v;
}
static bool g_c16_sets_only = false;   // threaded part: the public getters list servers in priority order, compare as sets
static std::map<std::string, std::string> g_c16_user;   // settings the application has made so far (incl. setters after init)
// (3) settings the application supplied explicitly hold after init and after every reinit
static void c16_user_wins(Run &run, const char *when) {
  Chan &c = run.chans[0];
  if (!c.alive) return;
  C16Snap sn; c16_snap(c.ch, sn);
  run.note("user_settings_checked");
  std::map<std::string, std::string> expect = g_c16_user;
  for (auto &u : run.user_set_later) expect[u.first] = u.second;
  if (!sn.eff.empty()) for (auto &u : expect) {
    auto it = sn.eff.find(u.first);
    if (it == sn.eff.end()) continue;
    if (it->second != u.second) { run.violate("C16", "user_setting_overridden", std::string(when) + ": the application set " + u.first + "=" + u.second + " but the channel now uses " + u.first + "=" + it->second + " (system files variant " + std::to_string(run.files_variant) + ")"); return; }
  }
  if (run.user_set_servers) {
    std::vector<C16Srv> want = c16_expected_servers(run);
    bool had_failures = false; for (auto &e : run.srv_events) if (!e.ok) had_failures = true;
    std::vector<C16Srv> got = sn.ports;
    if (had_failures || g_c16_sets_only) {   // listed in priority order once failures were recorded: compare as sets
      auto lt = [](const C16Srv &x, const C16Srv &y) { return std::make_tuple(x.family, x.addr, x.udp, x.tcp) < std::make_tuple(y.family, y.addr, y.udp, y.tcp); };
      std::sort(got.begin(), got.end(), lt); std::sort(want.begin(), want.end(), lt);
    }
    if (!(got == want)) { run.violate("C16", "user_servers_overridden", std::string(when) + ": the application set servers " + c16_srvs_text(want) + " but the channel reports " + c16_srvs_text(sn.ports) + " ('" + sn.csv + "')"); return; }
    run.note("user_servers_checked");
  }
}
void c16b_end(Run &run) { c16_user_wins(run, "with the event thread, after every caller thread finished and no reload was in progress"); }
static bool g_c16_reinit_done = false;   // the original has gone through ares_reinit() since it was initialised
static bool c16_compare(Run &run, const char *what, const C16Snap &a, const C16Snap &b, bool all_fields, int only_mask) {
  // a = original, b = copy
  if (!a.eff.empty() && !b.eff.empty()) for (auto &kv : a.eff) {
    const std::string &k = kv.first;
    if (k == "optmask") continue;
    int bit = c16_bit_of(k);
    bool user = bit && (a.mask & bit);
    if (only_mask >= 0 && !(bit && (only_mask & bit))) continue;            // save->init only promises what the mask carries
    if (!user && !all_fields) continue;                                      // system-derived and the files have changed since
    if (k.compare(0, 6, "local_") == 0 && only_mask >= 0) continue;
    auto it = b.eff.find(k);
    // system-derived values of a channel that went through ares_reinit() are judged under their own class: a reinit does not
    // forget a system setting that the rewritten files no longer mention (known finding KF-C16-1)
    if ((it == b.eff.end() || it->second != kv.second) && !user && g_c16_reinit_done) { run.violate("C16", (std::string(what) + "_system_setting_differs_after_reinit").c_str(), std::string(what) + ": " + k + " is '" + kv.second + "' on the original (initialised, then ares_reinit) and '" + (it == b.eff.end() ? "?" : it->second) + "' on the copy (initialised from the same files now)"); return false; }
    if (it == b.eff.end() || it->second != kv.second) { run.violate("C16", (std::string(what) + "_setting_differs").c_str(), std::string(what) + ": " + k + " is '" + kv.second + "' on the original and '" + (it == b.eff.end() ? "?" : it->second) + "' on the copy" + (user ? " (set by the application)" : "")); return false; }
  }
  return true;
}
static void c16_steps(Run &r, const Step &s) {
  Chan &c = r.chans[0];
  if (!c.alive) return;
  switch (s.k) {
    case S_FILE: {
      r.files_variant++;
      r.files_changed_since_init = true;
      W.set_file("/etc/resolv.conf", c16_conf_text(r.cfg, r.files_variant));
      if (s.a & 1) W.set_file("/etc/nsswitch.conf", (s.a & 2) ? "hosts: dns files\n" : "hosts: files\n");
      r.note("system_files_rewritten");
      break;
    }
    case S_LOCAL: {
      W.api_seq++;
      if (s.a & 1) { const char *d = (s.a & 2) ? "eth1" : "eth0"; ares_set_local_dev(c.ch, d); }
      else ares_set_local_ip4(c.ch, (s.a & 2) ? 0xC0000251 : 0xC0000252);
      r.note("set_local");
      break;
    }
    case S_DUP: {
      C16Snap a; c16_snap(c.ch, a);
      ares_channel_t *copy = nullptr;
      W.api_seq++;
      int rc = ares_dup(&copy, c.ch);
      if (rc == ARES_ENODATA && a.ports.empty()) { r.note("dup_refused_no_servers"); return; }   // a channel without servers is documented as not saveable
      if (rc != ARES_SUCCESS || !copy) { r.violate("C16", "dup_failed", std::string("ares_dup returned ") + ares_status_name(rc)); return; }
      C16Snap b; c16_snap(copy, b);
      r.note("dup_compared");
      bool ok = c16_compare(r, "dup", a, b, !r.files_changed_since_init, -1);
      // servers that came from the system configuration are deliberately not cloned: the copy reads the files as they are now
      bool cmp_servers = r.user_set_servers || !r.files_changed_since_init;
      if (!cmp_servers) r.note("dup_servers_not_compared_files_changed");
      // the public getters list servers in current priority order (failure counts first): once the original has seen a
      // server failure its order is no longer the configuration order, and only the set can be compared
      bool had_failures = false; for (auto &e : r.srv_events) if (!e.ok) had_failures = true;
      if (had_failures && cmp_servers) {
        auto key = [](const C16Srv &x) { return std::to_string(x.family) + x.addr + std::to_string(x.udp) + "/" + std::to_string(x.tcp); };
        std::vector<std::string> sa2, sb2; for (auto &x : a.ports) sa2.push_back(key(x)); for (auto &x : b.ports) sb2.push_back(key(x));
        std::sort(sa2.begin(), sa2.end()); std::sort(sb2.begin(), sb2.end());
        if (ok && sa2 != sb2) { r.violate("C16", "dup_servers_differ", "ares_dup: original servers " + c16_srvs_text(a.ports) + " ('" + a.csv + "'), copy " + c16_srvs_text(b.ports) + " ('" + b.csv + "') (compared as sets: the original has recorded server failures)"); ok = false; }
        r.note("dup_servers_compared_as_set");
        cmp_servers = false;
      }
      if (ok && cmp_servers && a.ports != b.ports) { r.violate("C16", "dup_servers_differ", "ares_dup: original servers " + c16_srvs_text(a.ports) + " ('" + a.csv + "'), copy " + c16_srvs_text(b.ports) + " ('" + b.csv + "')"); ok = false; }
      if (ok && cmp_servers && a.csv != b.csv) { r.violate("C16", "dup_servers_differ", "ares_dup: original server list '" + a.csv + "', copy '" + b.csv + "'"); ok = false; }
      if (ok && a.save_rc == ARES_SUCCESS && b.save_rc == ARES_SUCCESS && (a.mask != b.mask || a.saved != b.saved)) {
        std::string d;
        if (a.mask != b.mask) d = "option mask " + std::to_string(a.mask) + " vs " + std::to_string(b.mask);
        else for (auto &kv : a.saved) { auto it = b.saved.find(kv.first); if (it == b.saved.end() || it->second != kv.second) { d = kv.first + " '" + kv.second + "' vs '" + (it == b.saved.end() ? "?" : it->second) + "'"; break; } }
        r.violate("C16", "dup_saved_options_differ", "ares_save_options on original and ares_dup copy disagree: " + d);
      }
      ares_destroy(copy);
      break;
    }
    case S_SAVEOPT: {
      C16Snap a; c16_snap(c.ch, a);
      struct ares_options o; int mask = 0; memset(&o, 0, sizeof o);
      W.api_seq++;
      int rc = ares_save_options(c.ch, &o, &mask);
      if (rc == ARES_ENODATA && a.ports.empty()) { ares_destroy_options(&o); r.note("save_refused_no_servers"); return; }
      if (rc != ARES_SUCCESS) { ares_destroy_options(&o); r.violate("C16", "save_failed", std::string("ares_save_options returned ") + ares_status_name(rc)); return; }
      ares_channel_t *n = nullptr;
      int rc2 = ares_init_options(&n, &o, mask);
      ares_destroy_options(&o);
      if (rc2 != ARES_SUCCESS || !n) { r.violate("C16", "init_from_saved_failed", std::string("ares_init_options from saved options returned ") + ares_status_name(rc2)); return; }
      C16Snap b; c16_snap(n, b);
      r.note("save_init_compared");
      bool ok = c16_compare(r, "save_init", a, b, false, mask);
      // the options structure cannot carry IPv6 servers (documented): without any IPv4 server the bit is dropped by init
      bool any_v4 = false; for (auto &x : a.ports) if (x.family == AF_INET) any_v4 = true;
      int cmp_a = a.mask, cmp_b = b.mask;
      if (!any_v4) { cmp_a &= ~ARES_OPT_SERVERS; cmp_b &= ~ARES_OPT_SERVERS; }
      if (ok && b.save_rc == ARES_SUCCESS && (cmp_b != cmp_a)) { r.violate("C16", "save_init_mask_differs", "option mask saved from the original is " + std::to_string(a.mask) + ", from the channel initialised with it " + std::to_string(b.mask)); ok = false; }
      if (ok && (mask & ARES_OPT_SERVERS) && any_v4) {
        // the options structure carries IPv4 addresses only (documented): compare the IPv4 servers, in order
        std::vector<C16Srv> av, bv;
        for (auto &x : a.ports) if (x.family == AF_INET) { C16Srv y = x; y.udp = y.tcp = 0; av.push_back(y); }
        for (auto &x : b.ports) if (x.family == AF_INET) { C16Srv y = x; y.udp = y.tcp = 0; bv.push_back(y); }
        bool all_plain_v4 = true; for (auto &x : a.ports) if (x.family != AF_INET || (x.udp != 53 && x.udp != 0) || (x.tcp != 53 && x.tcp != 0)) all_plain_v4 = false;
        bool had_failures2 = false; for (auto &e : r.srv_events) if (!e.ok) had_failures2 = true;
        if (had_failures2) { auto lt = [](const C16Srv &x, const C16Srv &y) { return x.addr < y.addr; }; std::sort(av.begin(), av.end(), lt); std::sort(bv.begin(), bv.end(), lt); }
        if (av != bv) { r.violate("C16", "save_init_servers_differ", "IPv4 servers of the original " + c16_srvs_text(av) + ", of the channel initialised from its saved options " + c16_srvs_text(bv)); ok = false; }
        else if (all_plain_v4 && a.ports.size() != b.ports.size()) { r.violate("C16", "save_init_servers_differ", "original servers " + c16_srvs_text(a.ports) + ", channel initialised from its saved options " + c16_srvs_text(b.ports)); ok = false; }
        else r.note("save_init_servers_compared");
      }
      ares_destroy(n);
      break;
    }
    case S_CSVROUND: {
      // text form fed back to the setter reproduces itself (fresh channel without any system configuration influence on servers)
      C16Snap a; c16_snap(c.ch, a);
      if (a.csv == "(null)") { r.violate("C16", "get_servers_csv_null", "ares_get_servers_csv returned NULL"); return; }
      struct ares_options o; memset(&o, 0, sizeof o);
      ares_channel_t *n = nullptr;
      W.api_seq++;
      if (ares_init_options(&n, &o, 0) != ARES_SUCCESS || !n) return;
      int rc = ares_set_servers_ports_csv(n, a.csv.c_str());
      if (rc != ARES_SUCCESS) { r.violate("C16", "csv_not_accepted", "ares_set_servers_ports_csv rejects the text ares_get_servers_csv produced: '" + a.csv + "' -> " + ares_status_name(rc)); ares_destroy(n); return; }
      C16Snap b; c16_snap(n, b);
      r.note("csv_round_trip_compared");
      if (b.csv != a.csv) r.violate("C16", "csv_not_fixed_point", "server list text '" + a.csv + "' fed back to the setter reads back as '" + b.csv + "'");
      else if (b.ports != a.ports) r.violate("C16", "csv_round_trip_servers_differ", "servers " + c16_srvs_text(a.ports) + " rendered as '" + a.csv + "' come back as " + c16_srvs_text(b.ports));
      ares_destroy(n);
      break;
    }
    default: break;
  }
}
static void c16_after(Run &run) {
  // engine steps that change what the application has set
  if (run.cfg.profile != "C16") return;
}

// ---------------------------------------------------------------------------------------------
// C14: any single allocation failure is survived cleanly
// ---------------------------------------------------------------------------------------------
struct C14Ref { bool valid = false; uint64_t seed = 0; std::vector<std::string> per_req, ident; };
static C14Ref g_c14_ref;
static std::string c14_req_shape(const Req &r) {
  if (!r.accepted) return "-";
  if (r.cb_count == 0) return "?";
  std::string s = ares_status_name(r.status);
  if (r.status != ARES_SUCCESS) return s;
  s += " an=" + std::to_string(r.got.decode_err.empty() ? r.got.msg.an.size() : 0) + " addrs=" + std::to_string(r.got.addrs.size()) + " aliases=" + std::to_string(r.got.aliases.size());
  if (!r.got.node.empty() || !r.got.service.empty()) s += " node=" + std::to_string(!r.got.node.empty()) + " svc=" + r.got.service;
  return s;
}
static void c14_config_steps(Run &r, const Step &s) {
  Chan &c = r.chans[0];
  if (!c.alive) return;
  switch (s.k) {
    case S_DUP: {
      ares_channel_t *copy = nullptr;
      W.api_seq++;
      int rc = ares_dup(&copy, c.ch);
      r.note(rc == ARES_SUCCESS ? "dup_ok" : "dup_failed");
      if (rc != ARES_SUCCESS && copy != nullptr) r.violate("C14", "dup_failed_but_returned_channel", "ares_dup returned " + std::string(ares_status_name(rc)) + " and a non-NULL channel");
      if (rc == ARES_SUCCESS && copy == nullptr) r.violate("C14", "dup_ok_without_channel", "ares_dup returned success and a NULL channel");
      if (copy) ares_destroy(copy);
      break;
    }
    case S_SAVEOPT: {
      struct ares_options o; int mask = 0;
      memset(&o, 0, sizeof o);
      W.api_seq++;
      int rc = ares_save_options(c.ch, &o, &mask);
      r.note(rc == ARES_SUCCESS ? "save_options_ok" : "save_options_failed");
      // a failed save leaves what it had already copied in the (zero-initialised) structure; the caller releases it, as the
      // library's own ares_dup() does
      ares_destroy_options(&o);
      break;
    }
    case S_CSVROUND: {
      W.api_seq++;
      char *csv = ares_get_servers_csv(c.ch);
      r.note(csv ? "get_servers_csv_ok" : "get_servers_csv_null");
      if (csv) { if (s.a & 1) { int rc = ares_set_servers_ports_csv(c.ch, csv); r.note(rc == ARES_SUCCESS ? "csv_round_ok" : "csv_round_failed"); } ares_free_string(csv); }
      struct ares_addr_port_node *n = nullptr;
      if ((s.a & 2) && ares_get_servers_ports(c.ch, &n) == ARES_SUCCESS && n) ares_free_data(n);
      break;
    }
    case S_LOCAL: {
      W.api_seq++;
      if (s.a & 1) ares_set_local_dev(c.ch, (s.a & 2) ? "eth1" : "");
      else ares_set_local_ip4(c.ch, (s.a & 2) ? 0xC0000251 : 0);
      break;
    }
    case S_QUERYINFO: {
      W.api_seq++;
      (void)ares_queue_active_queries(c.ch);
      struct timeval tv, mx; mx.tv_sec = 1; mx.tv_usec = 0;
      (void)ares_timeout(c.ch, (s.a & 1) ? &mx : nullptr, &tv);
      break;
    }
    default: break;
  }
}
static void c14_before_destroy(Run &run) {
  if (run.cfg.profile != "C14") return;
  Chan &c = run.chans[0];
  if (!c.alive) return;
  bool reference = run.cfg.knob("fail_at", -1) <= 0;
  // reference run: nothing extra (its allocation count defines the enumeration range). Failing run: once the one failure
  // has been delivered the channel must still work - a fresh query against a healthy server succeeds.
  if (reference || g_alloc.failed == 0) return;
  run.note("usability_checked");
  std::vector<int> all; for (size_t i = 0; i < run.cfg.servers.size(); i++) all.push_back((int)i);
  W.api_seq++;
  std::string csv;
  for (int i : all) { const ServerSpec &sv = run.cfg.servers[(size_t)i]; bool v6 = sv.ip.find(':') != std::string::npos; csv += (csv.empty() ? "" : ",") + (sv.udp_port == sv.tcp_port ? (v6 ? "[" + sv.ip + "]:" + std::to_string(sv.udp_port) : sv.ip + ":" + std::to_string(sv.udp_port)) : "dns://" + (v6 ? "[" + sv.ip + "]" : sv.ip) + ":" + std::to_string(sv.udp_port) + "?tcpport=" + std::to_string(sv.tcp_port)); }
  int rc = ares_set_servers_ports_csv(c.ch, csv.c_str());
  if (rc != ARES_SUCCESS) { run.violate("C14", "channel_unusable_after_failure", "ares_set_servers_ports_csv('" + csv + "') returned " + ares_status_name(rc) + " after the failed allocation (no further failure injected)"); return; }
  run.active = all;
  // a name whose zone outcome is data
  int sel = -1;
  for (size_t i = 0; i < run.cfg.names.size() && sel < 0; i++) {
    const std::string &b = run.cfg.names[i];
    if (b.empty() || b[0] == '!' || b.find('.') == std::string::npos) continue;
    std::string full = "t9999." + b;
    if (W.zone_outcome(dnsref::name_from_text(full), 1) == Z_DATA) sel = (int)i;
  }
  if (sel < 0) { run.note("usability_no_healthy_name"); return; }
  int saved_tokens = run.cfg.use_tokens; run.cfg.use_tokens = 1;
  int saved_qt = run.cfg.qtypes.empty() ? 1 : run.cfg.qtypes[0];
  if (run.cfg.qtypes.empty()) run.cfg.qtypes.push_back(1); else run.cfg.qtypes[0] = 1;
  int tok = run.submit(K_QUERY_DNSREC, sel, 0, R_NONE, 0, false, 0, 0);
  run.cfg.qtypes[0] = saved_qt; run.cfg.use_tokens = saved_tokens;
  if (tok < 0) return;
  for (int i = 0; i < 400 && run.reqs[(size_t)tok].cb_count == 0; i++) {
    Step s; s.k = S_ADV; run.exec_step(s);
    if (getenv("SIM_DBG_C14") && i < 6) {
      fprintf(stderr, "C14 usability turn %d now=%lld next_flight=%lld hint=%lld pending_write=%d:", i, (long long)W.now_us, (long long)W.next_flight_time(), (long long)run.hint_time(0), c.pending_write);
      for (auto &p : c.interest) { VFd *v = W.get(p.first); fprintf(stderr, " fd%d(r%d w%d open%d readable%d writable%d)", p.first, p.second.first, p.second.second, v ? (int)v->open : -1, v ? (int)W.readable(*v) : -1, v ? (int)W.writable(*v) : -1); }
      fprintf(stderr, "\n");
    }
  }
  const Req &q = run.reqs[(size_t)tok];
  // the zone answer for a tokened name differs from the untokened probe above only in the token label, which the zone key ignores
  if (q.cb_count == 0 || (q.status != ARES_SUCCESS && q.status != ARES_ENODATA && q.status != ARES_ENOTFOUND))
    run.violate("C14", "channel_unusable_after_failure", "a fresh query (" + q.name + ") on the channel after allocation #" + std::to_string(run.cfg.knob("fail_at")) + " had failed ended with " + (q.cb_count ? ares_status_name(q.status) : "no callback") + " although the network is healthy");
  else run.note("usability_ok");
}
static void c14_end(Run &run) {
  bool reference = run.cfg.knob("fail_at", -1) <= 0;
  // the statement includes the per-request guarantee: re-attribute ledger violations seen in this profile
  for (auto &v : run.viol) if (v.prop == "C01") { v.prop = "C14"; v.oracle = "ledger_" + v.oracle; }
  if (reference) {
    g_c14_ref = C14Ref(); g_c14_ref.valid = true; g_c14_ref.seed = run.cfg.seed;
    for (auto &r : run.reqs) { g_c14_ref.per_req.push_back(c14_req_shape(r)); g_c14_ref.ident.push_back(std::to_string(r.kind) + "|" + r.name + "|" + std::to_string(r.qtype) + "|" + std::to_string(r.family) + "|" + std::to_string(r.ai_flags) + "|" + std::to_string((int)r.from_callback) + "|" + std::string(r.addr_bytes)); }
    return;
  }
  if (g_alloc.failed) run.note("allocation_failure_delivered");
  if (!g_c14_ref.valid || g_c14_ref.seed != run.cfg.seed) return;
  // a request that reports success must have "proceeded correctly": same answer shape as without the failure
  // a configuration call of the scenario itself that reported the failure (servers not set, ...) legitimately changes what
  // later requests see: the application was told, the comparison with the failure-free execution no longer applies
  bool config_failed = run.probe.count("set_servers_failed") || run.probe.count("set_sortlist_failed") || run.probe.count("reinit_failed") || run.probe.count("init_failed");
  if (config_failed) run.note("differential_skipped_config_call_failed");
  for (size_t i = 0; !config_failed && i < run.reqs.size() && i < g_c14_ref.per_req.size(); i++) {
    const Req &r = run.reqs[i];
    if (!r.accepted || r.cb_count == 0 || r.status != ARES_SUCCESS) continue;
    if (g_c14_ref.per_req[i].compare(0, 7, "SUCCESS") != 0) continue;
    // requests issued from callbacks shift the numbering once histories diverge: compare like with like only
    if (g_c14_ref.ident[i] != std::to_string(r.kind) + "|" + r.name + "|" + std::to_string(r.qtype) + "|" + std::to_string(r.family) + "|" + std::to_string(r.ai_flags) + "|" + std::to_string((int)r.from_callback) + "|" + std::string(r.addr_bytes)) continue;
    run.note("success_shape_compared");
    std::string now = c14_req_shape(r);
    // an AF_UNSPEC address lookup whose A or AAAA half failed legitimately returns the other half (as for any other failure of one half)
    // an AF_UNSPEC address lookup legitimately returns whichever of its A / AAAA halves succeeded (as for any other failure of
    // one half, and the first success stops the retries of the other): either execution may lack either half
    if ((r.kind == K_GETADDRINFO || r.kind == K_GETHOSTBYNAME) && r.family == AF_UNSPEC) { if (now != g_c14_ref.per_req[i]) run.note("success_partial_family"); continue; }
    if (now != g_c14_ref.per_req[i]) { run.note("success_shape_differs"); if (getenv("SIM_DBG_C14")) fprintf(stderr, "C14 shape seed=%llu sub=%lld req %zu %s %s: now [%s] ref [%s]\n", (unsigned long long)run.cfg.seed, (long long)run.cfg.knob("fail_at"), i, req_kind_name[r.kind], r.name.c_str(), now.c_str(), g_c14_ref.per_req[i].c_str()); if (run.cfg.knob("strict_shape", 1)) run.violate("C14", "success_with_different_result", "request " + std::to_string(i) + " (" + req_kind_name[r.kind] + " " + r.name + ") reports success with [" + now + "] but without the allocation failure it gives [" + g_c14_ref.per_req[i] + "]"); break; }
  }
}

// ---------------------------------------------------------------------------------------------
void profile_attach_more(Run &run) {
  const std::string &p = run.cfg.profile;
  g_rich.clear();
  g_c06 = C06State();
  // cheap cross-property observers: always on (reported for the owning property only)
  run.tx_obs.push_back(c03_tx);
  run.tx_obs.push_back(c06_tx);
  auto prev_done = run.on_done;
  run.on_done = [prev_done](Run &r, Req &q) { if (prev_done) prev_done(r, q); c03_done(r, q); c08_done(r, q); c05_done(r, q); c12_done(r, q); c13_done(r, q); };
  run.world_ready.push_back([](Run &r) {
    Run *rp = &r;
    W.on_read = [rp](Resp &rs, VFd &sock) { c05_arrival(*rp, rs, sock); };
    W.stat["cfg.dns0x20"] = (r.cfg.flags >= 0 && (r.cfg.flags & ARES_FLAG_DNS0x20)) ? 1 : 0;
  });
  auto prev_after = run.after_step;
  run.after_step = [prev_after, p](Run &r) { if (prev_after) prev_after(r); c06_after(r); if (r.cfg.mode == 0) c10_after(r); };
  if (p == "C09") run.at_end = c09_end;
  if (p == "C16") {
    run.extra_step = c16_steps;
    run.world_ready.push_back([](Run &r) { g_c16_reinit_done = false; g_c16_user = c16_user_expect(r); r.user_set_servers = r.cfg.server_source != 2; r.files_variant = 0; r.files_changed_since_init = false; });
    auto prev2 = run.after_step;
    run.after_step = [prev2](Run &r) {
      if (prev2) prev2(r);
      if (r.steps_done == 0) return;
      if (r.probe.count("reinit")) g_c16_reinit_done = true;
      c16_user_wins(r, "after a step");
    };
  }
  if (p == "C16B") {
    run.world_ready.push_back([](Run &r) { g_c16_reinit_done = false; g_c16_sets_only = true; g_c16_user = c16_user_expect(r); r.user_set_servers = r.cfg.server_source != 2; W.file_io_yields = r.cfg.knob("file_io_yields", 0) != 0; });
  }
  if (p == "C14") {
    run.at_end = c14_end; run.before_destroy = c14_before_destroy; run.extra_step = c14_config_steps;
    // behaviour fixed per question (not per attempt or server): a retry caused by the injected failure must meet the same
    // server behaviour as the original transmission did in the failure-free execution, or the differential would be noise
    run.world_ready.push_back([](Run &r) {
      (void)r;
      W.beh_override = [](const Tx &t) -> int {
        if (t.msg.qd.empty()) return -1;
        Rng br(hash_mix(hash_str(W.beh_key ^ 0xC14, t.qname_lc), (uint64_t)t.msg.qd[0].type));
        return br.pick(W.beh_weights);
      };
    });
  }
  if (p == "C17") {
    run.at_end = c17_end;
    run.extra_step = [](Run &r, const Step &s) {
      if (s.k == S_SRCADDR) {
        W.client_ip4.a[3] = (uint8_t)(10 + (W.client_ip4.a[3] + 1 + s.a % 7) % 200);
        W.client_ip6.a[15] = (uint8_t)(10 + (W.client_ip6.a[15] + 1 + s.a % 7) % 200);
        // sockets that stay open keep their address; close idle ones by letting the library see a receive error is not needed:
        // the library only learns its address when it opens a connection
        r.note("source_address_changed");
      } else if (s.k == S_COOKIECTL) {
        if (W.servers.empty()) return;
        size_t i = (size_t)s.a % W.servers.size();
        if (W.servers[i].cfg.cookie_mode != CK_REGRESS) return;
        W.servers[i].regress_active = !W.servers[i].regress_active;
        r.cookie_ctl.push_back({W.now_us, (int)i, W.servers[i].regress_active ? 1 : 0});
        r.note(W.servers[i].regress_active ? "cookie_support_withdrawn" : "cookie_support_restored");
      }
    };
  }
  if (p == "C13" && run.cfg.knob("c13_question_failures", 0)) {
    run.world_ready.push_back([](Run &r) {
      (void)r;
      W.beh_override = [](const Tx &t) -> int {
        if (t.msg.qd.empty() || (t.msg.qd[0].type != 1 && t.msg.qd[0].type != 28)) return -1;
        Rng br(hash_mix(hash_str(W.beh_key ^ 0xC13, t.qname_lc), (uint64_t)t.msg.qd[0].type));
        uint64_t x = br.below(100);
        if (x < 6) return B_SERVFAIL;
        if (x < 10) return B_REFUSED;
        return -1;   // the run's ordinary per-attempt behaviour
      };
    });
  }
  if (p == "C12") {
    run.extra_step = c12_steps;
    { auto prev3 = run.after_step; run.after_step = [prev3](Run &r) { if (prev3) prev3(r); c12_after(r); }; }
    run.world_ready.push_back([](Run &r) {
      g_c12_hist.clear(); g_c12_variant = 0; g_c12_reinits = 0; g_c12_file = C12File();
      C12Settings st; st.ndots = r.cfg.ndots >= 0 ? (size_t)r.cfg.ndots : (r.cfg.knob("conf_ndots", -1) >= 0 ? (size_t)r.cfg.knob("conf_ndots") : (size_t)1);
      st.domains = r.cfg.domains;
      g_c12_hist.push_back({0, st});
      g_c12_search_seen = r.cfg.knob("conf_search", 0) != 0 && !r.cfg.env.count("LOCALDOMAIN");
      // what the initial resolv.conf says (the generator put the settings either there or into the environment)
      if (r.cfg.knob("conf_ndots", -1) >= 0 && !r.cfg.env.count("RES_OPTIONS")) g_c12_file.ndots = (int)r.cfg.knob("conf_ndots");
      if (g_c12_search_seen) { g_c12_file.has_search = true; g_c12_file.search = r.cfg.domains; }
      Run *rp = &r;
      W.beh_override = [rp](const Tx &t) { return t.msg.qd.empty() ? -1 : c12_beh_of(*rp, t.qname_lc, t.msg.qd[0].type); };
    });
  }
  if (p == "C05") {
    run.extra_step = [](Run &r, const Step &s) { if (s.k == S_FORGE) c05_forge_step(r, s); };
    run.at_end = c05_end;
  }
  if (p == "C20") {
    run.at_end = c20_end;
    bool ref = run.cfg.knob("reference") != 0;
    run.extra_step = [ref](Run &r, const Step &s) {
      if (s.k != S_ZERODGRAM || ref) return;
      std::vector<int> us;
      for (int fd : W.open_sockets()) if (W.get(fd)->kind == FD_UDP && W.get(fd)->server_idx >= 0) us.push_back(fd);
      if (us.empty()) return;
      VFd *v = W.get(us[(size_t)s.a % us.size()]);
      W.add_flight(FL_DGRAM, W.now_us + 1, v->fd, "", W.servers[(size_t)v->server_idx].cfg.addr, -1);
      W.bump("net.zero_length_datagram");
      r.note("zero_length_datagram");
    };
  }
  if (p == "C03") {
    run.extra_step = [](Run &r, const Step &s) { (void)r; (void)s; };
    // a share of the requests are setter-built multi-record messages
    auto base = run.extra_step;
    run.pre_req = [](Run &r, const Step &s) { if ((int)(s.c % 100) < r.cfg.knob("rich_pct", 0)) { c03_rich_request(r, s); return true; } return false; };
  }
}

bool profile_nontrivial(const Run &run) {
  auto get = [&](const char *k) { auto it = run.probe.find(k); return it == run.probe.end() ? (int64_t)0 : it->second; };
  const std::string &p = run.cfg.profile;
  bool base = !W.txs.empty() && get("process_with_events") > 0;
  if (p == "C03") return base && (get("rich_frame_checked") > 0 || get("answer_roundtrip_checked") > 0);
  if (p == "C06") return base && get("attempt_wait_checked") > 0;
  if (p == "C07") return base && get("hint_checked_with_deadline") > 0 && get("adv_with_expired") > 0;
  if (p == "C10") return base && W.stat.count("sock_udp_opened");
  if (p == "C08") return base && get("cache_hit") > 0;
  if (p == "C05") return base && get("forged_packet") > 0;
  if (p == "C12") return base && get("search_walk_multi_candidate") > 0;
  if (p == "C13") return base && get("address_set_checked") > 0;
  if (p == "C09") return base && get("selection_with_failed_servers") > 0;
  if (p == "C14") return run.cfg.knob("fail_at", -1) <= 0 ? base : get("allocation_failure_delivered") > 0;
  if (p == "C11") return !W.txs.empty() && get("callers_joined") > 0;
  if (p == "C14B") return run.cfg.knob("fail_at", -1) <= 0 ? get("callers_joined") > 0 : get("allocation_failure_delivered") > 0;
  if (p == "C07B") return !W.txs.empty() && get("think") > 0 && get("callers_joined") > 0;
  if (p == "C16B") return get("callers_joined") > 0 && get("user_settings_checked") > 0 && get("reinit") + get("inotify_event") > 0 && get("set_servers_changed") + get("set_servers_same") + get("set_sortlist") > 0;
  if (p == "C16") return get("user_settings_checked") > 0 && (get("dup_compared") + get("save_init_compared") + get("csv_round_trip_compared") + get("reinit") > 0);
  if (p == "C17") return base && get("cookie_tx_checked") > 0 && get("server_cookie_learned") > 0;
  if (p == "C20") return base && get("differential_compared") > 0 && (W.stat.count("send_short") || W.stat.count("recv_short") || W.stat.count("send_eagain_window") || W.stat.count("recv_eagain_injected") || get("zero_length_datagram") > 0 || !W.fault_fired.empty());
  if (p == "C01") return base && (get("req_from_callback") + get("cancel_in_callback") + get("cancel_with_outstanding") > 0 || !W.fault_fired.empty());
  return base;
}

const char *profile_rule(const std::string &prof) {
  if (prof == "C03") return "runs are seeded plans (requests by name / setter-built multi-record messages / legacy builder, transport chunking so frames queue behind unsent bytes); non-trivial = at least one setter-built frame or one delivered answer was compared with the reference codec; distinct = distinct trace-shape hash";
  if (prof == "C06") return "runs are seeded plans over per-attempt server outcomes, option extremes (tries up to 100, timeouts 1 ms..INT_MAX, maxtimeout below the floor), list edits; non-trivial = at least one attempt's wait was checked against the envelope and traffic was processed; distinct = distinct trace-shape hash";
  if (prof == "C07") return "runs are seeded plans with silent/slow servers and sleep-exactly/overshoot/stall steps; non-trivial = the hint was compared with a real deadline and at least one loop turn ran with an expired deadline; distinct = distinct trace-shape hash";
  if (prof == "C17") return "runs are seeded histories against servers with scripted cookie behaviour (none, valid, changing, wrong client part, short/long, BADCOOKIE once/always/without cookie, support withdrawn and restored), source-address changes and clock jumps placed around 120 s / 300 s / 1 day (including exact-second instants); a reference RFC 7873 client model judges every COOKIE option seen at the virtual server and every delivered answer; non-trivial = cookies were sent and at least one server cookie was learned; distinct = distinct trace-shape hash";
  if (prof == "C09") return "runs are seeded success/failure histories over 1..6 servers (silence, error rcodes, partitions, open/connect/receive failures), rotation on/off, failover options (retry chance 0/1/n, retry delay 0/short/long), server-list edits in flight and clock advances across the retry delay; a reference health table is driven by the public server-state callback stream and every UDP transmission must go to a server the policy allows or be a legal probe copy; non-trivial = at least one transmission was judged while some server had failures; distinct = distinct trace-shape hash";
  if (prof == "C11") return "one run = 2..4 caller threads with seeded programs (all request entry points, cancel, server-list edits, reinit, sortlist/local setters, queue wait with and without timeout, active-query count, dup, save-options, injected inotify events) against a live event thread (epoll/poll/select back ends) and its reload thread; all threads are real pthreads released one at a time by a seeded baton scheduler (continue-with-preemption-probability, PCT-style priorities or uniform), blocking and timed waits are virtual; non-trivial = traffic reached the virtual network and all caller programs ran to completion; distinct = distinct hash of (call/shape trace, scheduling decisions)";
  if (prof == "C14B") return "as C14, with the library's event thread: a scenario is a seeded short threaded program (event thread on epoll/poll/select, 1..2 caller threads issuing requests, cancel, server-list edits, reinit incl. via injected inotify events, queue waits, dup) under the baton scheduler; it is executed once failure-free to count N allocator calls and once per failing index in its own process; non-trivial = the failure was delivered; distinct = distinct hash of (trace shape, scheduling decisions)";
  if (prof == "C16B") return "threaded part of C16: the C16 option space (every option independently set or left to the system; servers from the system configuration in 70 % of runs) on a channel with the event thread; two caller threads run seeded programs of ares_reinit, rewritten resolv.conf + injected change notifications (which make the event thread start the reload thread), ares_set_servers_ports_csv / ares_set_sortlist (one thread only, so the last application value is defined), requests and think times of 0..300 ms; all threads are real pthreads under the seeded baton scheduler, configuration-file reads are scheduling points; at the end, with no reload in progress, every setting the application made (at init or through a setter, at any time relative to the reloads) must be the one in force; non-trivial = at least one reload and one setter ran and the final comparison was made; distinct = distinct hash of (call/shape trace, scheduling decisions)";
  if (prof == "C07B") return "one run = 1..2 caller threads issuing requests separated by virtual think times from 0 ms to 70 s against the library's own event thread (each back end), with connections fresh, idle-kept-open (STAYOPEN) or busy and servers that answer or stay silent; no application action besides the requests; the run must end with every request completed within its retry budget and never reach scheduler quiescence with a request outstanding; non-trivial = traffic, at least one think time, programs completed; distinct = distinct hash of (call/shape trace, scheduling decisions)";
  if (prof == "C16") return "runs are seeded option masks and values (each option independently set or left to the system), server sets (IPv4/IPv6/link-local, default/equal/differing ports) given through one of five encodings, sortlists, domains, and virtual resolv.conf/nsswitch/environment contents that disagree with every user-set field; plans interleave traffic with ares_dup, save-options -> init-options, get-servers-csv -> set on a fresh channel, rewrites of the system files and ares_reinit, explicit setters; non-trivial = the user-settings invariant was evaluated and at least one copy/round-trip/reinit happened; distinct = distinct trace-shape hash";
  if (prof == "C14") return "a scenario is a seeded short plan (channel init with options and system files, 1..8 requests of all kinds driven to completion against a healthy network, cache hits, server-list edits, reinit, cancel, dup, save-options, destroy); it is executed once without failure to count its N allocator calls and then once per n in 1..N with exactly the n-th allocation failing (quick tier: at most --max-subs evenly spread n per scenario); evaluations counts executions; non-trivial = the injected failure was actually delivered; distinct = distinct trace-shape hash";
  if (prof == "C13") return "runs are seeded sets of getaddrinfo/gethostbyname/gethostbyaddr/getnameinfo requests (families, hint flags, ports, sortlists, lookup orders, hosts-file names, literals, localhost) against answers with 1..40 unique marker addresses, CNAME chains, other-family and foreign-class records in the answer section and address records in the additional section, with faults on the source-address discovery used for sorting; non-trivial = at least one DNS-answered address set was compared as a multiset with the accepted answers; distinct = distinct trace-shape hash";
  if (prof == "C12") return "runs are seeded sets of search/getaddrinfo/gethostbyname requests over name shapes (0..4 dots, trailing dot, escaped dots, long labels, names that stop fitting once a domain is appended, host aliases) x ndots x domain lists (incl. root) x flags, with a per-candidate outcome (data, NODATA, NXDOMAIN, SERVFAIL, REFUSED, timeout) fixed by keyed hash; the question names seen at the virtual server and the final status are compared with an independent resolv.conf(5) reference; non-trivial = at least one request whose reference candidate list has more than one entry was checked; distinct = distinct trace-shape hash";
  if (prof == "C05") return "runs are seeded histories of genuine traffic (loss, delay, duplicates, late replies, error rcodes, TC) with an off-path adversary injecting datagrams that differ from the would-be-valid reply in one respect (id, socket, source address, name, type, class, question count, letter case, cookie) at chosen instants of a query's life; every delivered datum carries a unique marker naming its packet; non-trivial = at least one forged packet was injected while traffic was processed; distinct = distinct trace-shape hash";
  if (prof == "C08") return "runs are seeded sequences of requests over a small name set (case / trailing-dot / flag / type variants, every API), responses with TTL mixes and negative answers, virtual-time advances around whole-second expiry instants, server-list changes and reinit; non-trivial = at least one request was answered without any transmission (a cache hit judged by the reference model); distinct = distinct trace-shape hash";
  if (prof == "C20") return "each seeded plan (batches of queued queries, answers up to several KiB, TC upgrades) is executed twice: once with whole-message always-writable transport and once with generated inbound chunking, partial writes, EAGAIN windows and zero-length datagrams; non-trivial = the two executions were compared and at least one short read/short write/EAGAIN/zero-length datagram actually occurred; distinct = distinct trace-shape hash of the segmented execution";
  if (prof == "C10") return "runs are seeded plans over UDP/TCP/TFO mixes, per-socket limits, failing socket callbacks and per-call socket faults; non-trivial = sockets were opened and readiness events processed; distinct = distinct trace-shape hash";
  if (prof == "C01") return "runs are seeded API histories with re-entrant callbacks, cancels, socket faults; non-trivial = traffic processed and (a request or cancel issued from a callback, a cancel with requests outstanding, or an injected fault fired); distinct = distinct trace-shape hash (sequence of step kinds, call kinds/outcomes, callback statuses)";
  return "a run is non-trivial when at least one request reached the virtual network and at least one readiness event was processed; distinct = distinct trace-shape hash (sequence of step kinds, call kinds/outcomes, callback statuses)";
}
