// Property-specific configuration, plans and oracles.
#include "oracles.h"

void profile_cfg_more(const std::string &prof, uint64_t seed, RunCfg &c, Rng &r) {
  (void)prof; (void)seed; (void)c; (void)r;
}

bool profile_plan_more(const RunCfg &c, Rng &r, std::vector<Step> &plan) {
  (void)c; (void)r; (void)plan;
  return false;
}

void profile_attach_more(Run &run) { (void)run; }

bool profile_nontrivial(const Run &run) {
  auto get = [&](const char *k) { auto it = run.probe.find(k); return it == run.probe.end() ? (int64_t)0 : it->second; };
  return !W.txs.empty() && (get("process_with_events") > 0);
}

const char *profile_rule(const std::string &prof) {
  (void)prof;
  return "a run is non-trivial when at least one request reached the virtual network and at least one readiness event was processed; distinct = distinct trace-shape hash (sequence of step kinds, call kinds/outcomes, callback statuses)";
}
