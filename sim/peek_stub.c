/* Fallback when peek.c does not compile against the current tree: oracles use black-box forms. */
#include <stddef.h>
struct ares_channeldata;
int peek_available(void) { return 0; }
int peek_earliest_deadline(const struct ares_channeldata *ch, long long *us_out) { (void)ch; (void)us_out; return -1; }
size_t peek_timeout_index_len(const struct ares_channeldata *ch) { (void)ch; return 0; }
size_t peek_all_queries_len(const struct ares_channeldata *ch) { (void)ch; return 0; }
int peek_expired_in_index(const struct ares_channeldata *ch, long long now_us) { (void)ch; (void)now_us; return 0; }
int peek_conn_count(const struct ares_channeldata *ch) { (void)ch; return -1; }
struct peek_qinfo { unsigned short qid; long long ts_us; long long deadline_us; unsigned long try_count; int using_tcp; int server_idx; int no_retries; };
int peek_queries(const struct ares_channeldata *ch, struct peek_qinfo *out, int cap) { (void)ch; (void)out; (void)cap; return -1; }
size_t peek_num_servers(const struct ares_channeldata *ch) { (void)ch; return 0; }
int peek_channel_opts(const struct ares_channeldata *ch, long *tries, long *timeout_ms, long *maxtimeout_ms, long *ndots, long *rotate) { (void)ch; (void)tries; (void)timeout_ms; (void)maxtimeout_ms; (void)ndots; (void)rotate; return 0; }
size_t peek_full(const struct ares_channeldata *ch, char *out, size_t cap) { (void)ch; (void)cap; if (out) out[0] = 0; return 0; }
