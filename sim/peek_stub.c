/* Fallback when peek.c does not compile against the current tree: oracles use black-box forms. */
#include <stddef.h>
struct ares_channeldata;
int peek_available(void) { return 0; }
int peek_earliest_deadline(const struct ares_channeldata *ch, long long *us_out) { (void)ch; (void)us_out; return -1; }
size_t peek_timeout_index_len(const struct ares_channeldata *ch) { (void)ch; return 0; }
size_t peek_all_queries_len(const struct ares_channeldata *ch) { (void)ch; return 0; }
int peek_expired_in_index(const struct ares_channeldata *ch, long long now_us) { (void)ch; (void)now_us; return 0; }
int peek_conn_count(const struct ares_channeldata *ch) { (void)ch; return -1; }
