// Conversions between c-ares public API objects and the reference codec's structures.
#pragma once
#include "dnsref.h"
#include <ares.h>
#include <ares_dns_record.h>
#include <vector>
#include <string>

// Build a reference Msg from a c-ares record using public getters only.
void ares_to_ref(const ares_dns_record_t *rec, dnsref::Msg &out);
// Markers embedded in a message (addresses 10.x.y.z / fd00:5a::, labels m<id>, TXT m<id>).
void markers_in_msg(const dnsref::Msg &m, std::vector<uint32_t> &out, bool answer_only = false);
int marker_of_addr(const std::string &addr_bytes);   // -1 if not a marker address
int marker_of_name_text(const std::string &name);     // first m<id> label, -1 if none
int marker_of_label(const std::string &label);
const char *ares_status_name(int st);
