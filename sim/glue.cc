#include "glue.h"
#include <string.h>
#include <netinet/in.h>

using namespace dnsref;

static Name nm(const char *s) { return s ? name_from_text(s) : Name(); }

static void rr_to_ref(const ares_dns_rr_t *rr, RR &o) {
  o.name = nm(ares_dns_rr_get_name(rr));
  ares_dns_rec_type_t t = ares_dns_rr_get_type(rr);
  o.type = (uint16_t)t;
  o.klass = (uint16_t)ares_dns_rr_get_class(rr);
  o.ttl = ares_dns_rr_get_ttl(rr);
  switch (t) {
    case ARES_REC_TYPE_A: { const struct in_addr *a = ares_dns_rr_get_addr(rr, ARES_RR_A_ADDR); if (a) o.addr.assign((const char *)a, 4); break; }
    case ARES_REC_TYPE_AAAA: { const struct ares_in6_addr *a = ares_dns_rr_get_addr6(rr, ARES_RR_AAAA_ADDR); if (a) o.addr.assign((const char *)a, 16); break; }
    case ARES_REC_TYPE_NS: o.target = nm(ares_dns_rr_get_str(rr, ARES_RR_NS_NSDNAME)); break;
    case ARES_REC_TYPE_CNAME: o.target = nm(ares_dns_rr_get_str(rr, ARES_RR_CNAME_CNAME)); break;
    case ARES_REC_TYPE_PTR: o.target = nm(ares_dns_rr_get_str(rr, ARES_RR_PTR_DNAME)); break;
    case ARES_REC_TYPE_MX: o.pref = ares_dns_rr_get_u16(rr, ARES_RR_MX_PREFERENCE); o.target = nm(ares_dns_rr_get_str(rr, ARES_RR_MX_EXCHANGE)); break;
    case ARES_REC_TYPE_SOA:
      o.target = nm(ares_dns_rr_get_str(rr, ARES_RR_SOA_MNAME)); o.rname = nm(ares_dns_rr_get_str(rr, ARES_RR_SOA_RNAME));
      o.soa[0] = ares_dns_rr_get_u32(rr, ARES_RR_SOA_SERIAL); o.soa[1] = ares_dns_rr_get_u32(rr, ARES_RR_SOA_REFRESH);
      o.soa[2] = ares_dns_rr_get_u32(rr, ARES_RR_SOA_RETRY); o.soa[3] = ares_dns_rr_get_u32(rr, ARES_RR_SOA_EXPIRE);
      o.soa[4] = ares_dns_rr_get_u32(rr, ARES_RR_SOA_MINIMUM);
      break;
    case ARES_REC_TYPE_SRV:
      o.pref = ares_dns_rr_get_u16(rr, ARES_RR_SRV_PRIORITY); o.weight = ares_dns_rr_get_u16(rr, ARES_RR_SRV_WEIGHT);
      o.port = ares_dns_rr_get_u16(rr, ARES_RR_SRV_PORT); o.target = nm(ares_dns_rr_get_str(rr, ARES_RR_SRV_TARGET));
      break;
    case ARES_REC_TYPE_TXT: {
      size_t n = ares_dns_rr_get_abin_cnt(rr, ARES_RR_TXT_DATA);
      for (size_t i = 0; i < n; i++) { size_t l = 0; const unsigned char *p = ares_dns_rr_get_abin(rr, ARES_RR_TXT_DATA, i, &l); o.strs.push_back(std::string((const char *)p, p ? l : 0)); }
      break;
    }
    case ARES_REC_TYPE_HINFO: {
      const char *a = ares_dns_rr_get_str(rr, ARES_RR_HINFO_CPU), *b = ares_dns_rr_get_str(rr, ARES_RR_HINFO_OS);
      o.strs.push_back(a ? a : ""); o.strs.push_back(b ? b : "");
      break;
    }
    case ARES_REC_TYPE_NAPTR: {
      o.pref = ares_dns_rr_get_u16(rr, ARES_RR_NAPTR_ORDER); o.weight = ares_dns_rr_get_u16(rr, ARES_RR_NAPTR_PREFERENCE);
      const char *a = ares_dns_rr_get_str(rr, ARES_RR_NAPTR_FLAGS), *b = ares_dns_rr_get_str(rr, ARES_RR_NAPTR_SERVICES), *c = ares_dns_rr_get_str(rr, ARES_RR_NAPTR_REGEXP);
      o.strs = {a ? a : "", b ? b : "", c ? c : ""};
      o.target = nm(ares_dns_rr_get_str(rr, ARES_RR_NAPTR_REPLACEMENT));
      break;
    }
    case ARES_REC_TYPE_CAA: {
      o.caa_flags = ares_dns_rr_get_u8(rr, ARES_RR_CAA_CRITICAL);
      const char *tag = ares_dns_rr_get_str(rr, ARES_RR_CAA_TAG);
      size_t l = 0; const unsigned char *v = ares_dns_rr_get_bin(rr, ARES_RR_CAA_VALUE, &l);
      o.strs = {tag ? tag : "", std::string((const char *)v, v ? l : 0)};
      break;
    }
    case ARES_REC_TYPE_OPT: {
      o.klass = ares_dns_rr_get_u16(rr, ARES_RR_OPT_UDP_SIZE);
      o.ttl = ((uint32_t)ares_dns_rr_get_u8(rr, ARES_RR_OPT_VERSION) << 16) | ares_dns_rr_get_u16(rr, ARES_RR_OPT_FLAGS);
      size_t n = ares_dns_rr_get_opt_cnt(rr, ARES_RR_OPT_OPTIONS);
      for (size_t i = 0; i < n; i++) {
        const unsigned char *v = nullptr; size_t l = 0;
        unsigned short code = ares_dns_rr_get_opt(rr, ARES_RR_OPT_OPTIONS, i, &v, &l);
        o.opts.push_back(EdnsOpt{code, std::string((const char *)v, v ? l : 0)});
      }
      break;
    }
    case ARES_REC_TYPE_RAW_RR: {
      o.type = ares_dns_rr_get_u16(rr, ARES_RR_RAW_RR_TYPE);
      size_t l = 0; const unsigned char *v = ares_dns_rr_get_bin(rr, ARES_RR_RAW_RR_DATA, &l);
      o.raw.assign((const char *)v, v ? l : 0);
      break;
    }
    default: {
      // generic: concatenate key=value through the datatype-driven getters
      size_t cnt = 0;
      const ares_dns_rr_key_t *keys = ares_dns_rr_get_keys(t, &cnt);
      for (size_t i = 0; i < cnt; i++) {
        switch (ares_dns_rr_key_datatype(keys[i])) {
          case ARES_DATATYPE_U8: o.raw += "u8:" + std::to_string(ares_dns_rr_get_u8(rr, keys[i])) + ";"; break;
          case ARES_DATATYPE_U16: o.raw += "u16:" + std::to_string(ares_dns_rr_get_u16(rr, keys[i])) + ";"; break;
          case ARES_DATATYPE_U32: o.raw += "u32:" + std::to_string(ares_dns_rr_get_u32(rr, keys[i])) + ";"; break;
          case ARES_DATATYPE_NAME: case ARES_DATATYPE_STR: { const char *s = ares_dns_rr_get_str(rr, keys[i]); o.raw += std::string("s:") + (s ? s : "") + ";"; break; }
          case ARES_DATATYPE_BIN: case ARES_DATATYPE_BINP: { size_t l = 0; const unsigned char *v = ares_dns_rr_get_bin(rr, keys[i], &l); o.raw += "b:" + std::string((const char *)v, v ? l : 0) + ";"; break; }
          default: break;
        }
      }
    }
  }
}

void ares_to_ref(const ares_dns_record_t *rec, Msg &m) {
  m = Msg();
  m.id = ares_dns_record_get_id(rec);
  unsigned short f = ares_dns_record_get_flags(rec);
  uint16_t w = 0;
  if (f & ARES_FLAG_QR) w |= F_QR;
  if (f & ARES_FLAG_AA) w |= F_AA;
  if (f & ARES_FLAG_TC) w |= F_TC;
  if (f & ARES_FLAG_RD) w |= F_RD;
  if (f & ARES_FLAG_RA) w |= F_RA;
  if (f & ARES_FLAG_AD) w |= F_AD;
  if (f & ARES_FLAG_CD) w |= F_CD;
  w |= (uint16_t)(((int)ares_dns_record_get_opcode(rec) & 0xf) << 11);
  int rc = (int)ares_dns_record_get_rcode(rec);
  w |= (uint16_t)(rc & 0xf);
  m.flags = w;
  size_t nq = ares_dns_record_query_cnt(rec);
  for (size_t i = 0; i < nq; i++) {
    const char *name = nullptr; ares_dns_rec_type_t t; ares_dns_class_t c;
    if (ares_dns_record_query_get(rec, i, &name, &t, &c) != ARES_SUCCESS) continue;
    Question q; q.name = nm(name); q.type = (uint16_t)t; q.klass = (uint16_t)c;
    m.qd.push_back(q);
  }
  ares_dns_section_t secs[3] = {ARES_SECTION_ANSWER, ARES_SECTION_AUTHORITY, ARES_SECTION_ADDITIONAL};
  std::vector<RR> *dst[3] = {&m.an, &m.ns, &m.ar};
  for (int s = 0; s < 3; s++) {
    size_t n = ares_dns_record_rr_cnt(rec, secs[s]);
    for (size_t i = 0; i < n; i++) {
      const ares_dns_rr_t *rr = ares_dns_record_rr_get_const(rec, secs[s], i);
      RR o;
      rr_to_ref(rr, o);
      if (o.type == T_OPT) o.ttl |= (uint32_t)((rc >> 4) & 0xff) << 24;
      dst[s]->push_back(o);
    }
  }
}

int marker_of_addr(const std::string &a) {
  if (a.size() == 4 && (uint8_t)a[0] == 10) return ((uint8_t)a[1] << 16) | ((uint8_t)a[2] << 8) | (uint8_t)a[3];
  if (a.size() == 16 && (uint8_t)a[0] == 0xfd && (uint8_t)a[1] == 0 && (uint8_t)a[2] == 0x5a)
    return (int)(((uint32_t)(uint8_t)a[12] << 24) | ((uint8_t)a[13] << 16) | ((uint8_t)a[14] << 8) | (uint8_t)a[15]);
  return -1;
}
int marker_of_label(const std::string &l) {
  if (l.size() < 2 || (l[0] != 'm' && l[0] != 'M')) return -1;
  long v = 0;
  for (size_t i = 1; i < l.size(); i++) { if (l[i] < '0' || l[i] > '9') return -1; v = v * 10 + (l[i] - '0'); if (v > 2000000000) return -1; }
  return (int)v;
}
static int marker_of_name(const Name &n) {
  // pattern: [prefix.] m<id> . mark . test
  for (size_t i = 0; i + 2 < n.size() + 0 && i < n.size(); i++) {
    int m = marker_of_label(n[i]);
    if (m >= 0 && i + 1 < n.size() && (n[i + 1] == "mark" || n[i + 1] == "MARK" || strcasecmp(n[i + 1].c_str(), "mark") == 0)) return m;
  }
  return -1;
}
int marker_of_name_text(const std::string &t) { return marker_of_name(name_from_text(t)); }

void markers_in_msg(const Msg &m, std::vector<uint32_t> &out, bool answer_only) {
  const std::vector<RR> *secs[3] = {&m.an, &m.ns, &m.ar};
  for (int s = 0; s < (answer_only ? 1 : 3); s++)
    for (auto &r : *secs[s]) {
      int k;
      if (!r.addr.empty() && (k = marker_of_addr(r.addr)) >= 0) out.push_back((uint32_t)k);
      if ((k = marker_of_name(r.target)) >= 0) out.push_back((uint32_t)k);
      if ((k = marker_of_name(r.name)) >= 0) out.push_back((uint32_t)k);
      for (auto &st : r.strs) {
        if ((k = marker_of_label(st)) >= 0) out.push_back((uint32_t)k);
        else if (st.size() > 9 && st.compare(st.size() - 8, 8, ".example") == 0 && (k = marker_of_label(st.substr(0, st.size() - 8))) >= 0) out.push_back((uint32_t)k);
      }
      if (!r.raw.empty() && (k = marker_of_label(r.raw)) >= 0) out.push_back((uint32_t)k);
    }
}

const char *ares_status_name(int st) {
  static const char *n[] = {"SUCCESS", "ENODATA", "EFORMERR", "ESERVFAIL", "ENOTFOUND", "ENOTIMP", "EREFUSED", "EBADQUERY", "EBADNAME", "EBADFAMILY", "EBADRESP", "ECONNREFUSED", "ETIMEOUT", "EOF", "EFILE", "ENOMEM", "EDESTRUCTION", "EBADSTR", "EBADFLAGS", "ENONAME", "EBADHINTS", "ENOTINITIALIZED", "ELOADIPHLPAPI", "EADDRGETNETWORKPARAMS", "ECANCELLED", "ESERVICE", "ENOSERVER"};
  if (st >= 0 && st < (int)(sizeof n / sizeof *n)) return n[st];
  return "?";
}
