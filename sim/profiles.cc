// Per-property profiles: configuration swarm, plan generation, profile-specific oracles.
#include "run.h"
#include "oracles.h"
#include <algorithm>

static const int ALL_QTYPES[] = {1, 28, 16, 15, 2, 12, 33, 6, 5, 35, 257, 255};

static void base_servers(RunCfg &c, Rng &r, int nmax) {
  int n = 1 + (int)r.below((uint64_t)nmax);
  for (int i = 0; i < n; i++) {
    ServerSpec s;
    bool v6 = r.chance(0.25);
    s.ip = v6 ? "fd53::" + std::to_string(i + 1) : "10.53.0." + std::to_string(i + 1);
    if (r.chance(0.2)) { s.udp_port = 5300 + (int)r.below(50); s.tcp_port = r.chance(0.5) ? s.udp_port : 5400 + (int)r.below(50); }
    c.servers.push_back(s);
  }
}

static void base_names(RunCfg &c, Rng &r) {
  static const char *zones[] = {"ex1.test", "ex2.test", "deep.sub.ex3.test", "corp.test"};
  int n = 6 + (int)r.below(10);
  for (int i = 0; i < n; i++) {
    std::string z = zones[r.below(4)];
    switch (r.below(6)) {
      case 0: c.names.push_back("w" + std::to_string(i) + "." + z); break;
      case 1: c.names.push_back("a" + std::to_string(i) + ".b." + z); break;
      case 2: c.names.push_back("h" + std::to_string(i)); break;               // single label (search)
      case 3: c.names.push_back("x" + std::to_string(i) + "." + z + "."); break;  // fully qualified
      case 4: c.names.push_back("MiXeD" + std::to_string(i) + "." + z); break;
      default: c.names.push_back("n" + std::to_string(i) + ".s"); break;     // two labels, relative
    }
  }
}

static void base_cfg(RunCfg &c, Rng &r) {
  c.t0_us = 1000000000LL + (int64_t)r.below(5000000) * 1000 + (r.chance(0.2) ? 0 : (int64_t)r.below(1000000));
  if (r.chance(0.1)) c.t0_us -= c.t0_us % 1000000;   // exact-second instants (usec == 0)
  base_servers(c, r, 4);
  int f = 0;
  if (r.chance(0.75)) f |= ARES_FLAG_EDNS;
  if (r.chance(0.10)) f |= ARES_FLAG_USEVC;
  if (r.chance(0.10)) f |= ARES_FLAG_IGNTC;
  if (r.chance(0.35)) f |= ARES_FLAG_STAYOPEN;
  if (r.chance(0.10)) f |= ARES_FLAG_NOSEARCH;
  if (r.chance(0.15)) f |= ARES_FLAG_NOCHECKRESP;
  if (r.chance(0.30)) f |= ARES_FLAG_DNS0x20;
  if (r.chance(0.05)) f |= ARES_FLAG_NORECURSE;
  f |= ARES_FLAG_NOALIASES;
  c.flags = r.chance(0.15) ? -1 : f;
  c.tries = r.chance(0.2) ? -1 : 1 + (int)r.below(4);
  c.timeout_ms = r.chance(0.2) ? -1 : (r.chance(0.2) ? 1 + (int)r.below(50) : 100 + (int)r.below(2500));
  c.maxtimeout_ms = r.chance(0.7) ? -1 : (r.chance(0.3) ? 50 + (int)r.below(200) : 500 + (int)r.below(8000));
  c.rotate = r.chance(0.5) ? -1 : (int)r.below(2);
  c.udp_max_queries = r.chance(0.7) ? -1 : (int)r.below(4);
  c.ndots = r.chance(0.6) ? -1 : (int)r.below(4);
  c.set_domains = 1;
  int nd = (int)r.below(4);
  static const char *doms[] = {"corp.test", "sub.corp.test", "lan.test", "."};
  for (int i = 0; i < nd; i++) c.domains.push_back(doms[r.below(4)]);
  c.lookups = r.chance(0.5) ? "" : (r.chance(0.5) ? "b" : (r.chance(0.5) ? "bf" : "fb"));
  c.qcache_max_ttl = r.chance(0.4) ? 0 : (r.chance(0.5) ? -1 : 1 + (int)r.below(600));
  if (r.chance(0.4)) { c.retry_chance = (int)r.below(4); c.retry_delay = r.chance(0.5) ? 0 : (int)r.below(3000); }
  c.ednspsz = r.chance(0.8) ? -1 : 512 + (int)r.below(3000);
  c.loop_style = (int)r.below(3);
  c.pending_write_cb = r.chance(0.25);
  c.sockfuncs = r.chance(0.6) ? 0 : 1 + (int)r.below(3);
  c.tfo = r.chance(0.4);
  c.server_source = r.chance(0.8) ? 0 : 2;
  c.resolv_conf = "";
  if (c.server_source == 2) {
    for (auto &s : c.servers) { s.udp_port = 53; s.tcp_port = 53; c.resolv_conf += "nameserver " + s.ip + "\n"; }
  } else c.resolv_conf = "nameserver 10.99.99.99\n";
  c.beh_w = {70, 4, 2, 1, 3, 1, 5, 6, 3, 2, 2, 0, 2, 2, 1};
  c.zone_w = {60, 15, 20, 5};
  c.min_delay = 100 + (int64_t)r.below(2000);
  c.max_delay = c.min_delay + (int64_t)r.below(80000);
  base_names(c, r);
  int nq = 2 + (int)r.below(6);
  c.qtypes.push_back(1); c.qtypes.push_back(28);
  for (int i = 0; i < nq; i++) c.qtypes.push_back(ALL_QTYPES[r.below(sizeof ALL_QTYPES / sizeof *ALL_QTYPES)]);
}

static void gen_plan_generic(const RunCfg &c, Rng &r, std::vector<Step> &plan, const std::vector<int> &w, int nmin, int nmax) {
  // w indexed by StepKind
  int n = nmin + (int)r.below((uint64_t)(nmax - nmin + 1));
  for (int i = 0; i < n; i++) {
    Step s;
    s.k = r.pick(w);
    if (s.k == 0) s.k = S_ADV;
    s.a = (int64_t)r.below(1000); s.b = (int64_t)r.below(1000); s.c = (int64_t)r.below(1000000); s.d = (int64_t)r.below(1000);
    switch (s.k) {
      case S_ADV: s.a = r.pick({60, 15, 15, 10}); s.b = r.chance(0.8) ? 0 : 1 + (int64_t)r.below(4); s.c = r.chance(0.5) ? (int64_t)r.below(3) : (int64_t)r.below(500000); break;
      case S_STALL: s.a = r.chance(0.7) ? (int64_t)r.below(3000) : (int64_t)r.below(120000); break;
      case S_REQ: if (!c.allow_cancel_in_cb && (s.d % R_NREACT) == R_CANCEL) s.d += 1; break;
      default: break;
    }
    plan.push_back(s);
  }
}

static std::vector<int> weights(std::initializer_list<std::pair<int, int>> l) {
  std::vector<int> w(S_NKINDS, 0);
  for (auto &p : l) w[(size_t)p.first] = p.second;
  return w;
}

bool profile_known(const std::string &p) {
  static const char *known[] = {"C01", "C03", "C05", "C06", "C07", "C08", "C09", "C10", "C12", "C13", "C14", "C14B", "C16", "C17", "C20", "C11", "C07B", "C16B", "SMOKE"};
  for (auto k : known) if (p == k) return true;
  return false;
}

void profile_make_cfg(const std::string &prof, uint64_t seed, RunCfg &c) {
  c = RunCfg();
  c.profile = prof; c.seed = seed; c.prof.id = prof;
  Rng r(seed * 0x9E3779B97F4A7C15ULL + hash_str(7, prof));
  base_cfg(c, r);
  bool nofault_run = (seed % 5) == 0;   // every profile also runs with all faults off
  if (nofault_run) c.faults = 0;
  if (prof == "SMOKE") {
    c.faults = 0;
    c.beh_w = {100, 0, 0, 0, 0, 0, 0, 0, 0, 0, 0, 0, 0, 0, 0};
  } else if (prof == "C01") {
    c.allow_cancel_in_cb = 1;
    // names that stress the request paths: escapes, long labels, names whose text form is longer than the wire form
    c.names.push_back("e\\.sc\\046aped.ex1.test");
    c.names.push_back(std::string(63, 'l') + ".ex2.test");
    { std::string n; for (int i = 0; i < 60; i++) n += "\\065\\066."; n += "ex1.test"; c.names.push_back(n); }   // text > 255, wire fits
    { std::string n; for (int i = 0; i < 3; i++) n += std::string(60, 'a' + i) + "."; n += std::string(50, 'q'); c.names.push_back(n); }  // near the 255 limit with search domains
    c.names.push_back("h\\.dot");   // escaped dot, single label for the search logic
    // escaped names whose text form fits 255 characters on its own but not once a search domain is appended
    for (int k = 0; k < 3; k++) {
      int labels = 22 + (int)r.below(6);
      std::string n;
      for (int i = 0; i < labels; i++) n += "\\065\\066.";
      n += "x";
      c.names.push_back(n);
    }
    if (r.chance(0.5)) c.sock_create_cb = 1 + (int)r.below(2);
    if (r.chance(0.3)) c.sock_config_cb = 1 + (int)r.below(2);
    // descriptor numbers handed out again as soon as they are free (what a real kernel does): a stale pointer or a stale number
    // then aliases a live connection. Only in this profile: the C10/C05 oracles identify sockets by number.
    if (r.chance(0.4)) c.knobs["fd_reuse"] = 1;
  }
  profile_cfg_more(prof, seed, c, r);
  if (c.faults == 0) { c.sock_create_cb = c.sock_create_cb ? 1 : 0; c.sock_config_cb = c.sock_config_cb ? 1 : 0; }
}

void profile_make_plan(const RunCfg &c, std::vector<Step> &plan) {
  Rng r(c.seed * 0xD1B54A32D192ED03ULL + hash_str(11, c.profile));
  plan.clear();
  const std::string &p = c.profile;
  if (profile_plan_more(c, r, plan)) return;
  if (p == "SMOKE") {
    gen_plan_generic(c, r, plan, weights({{S_REQ, 40}, {S_ADV, 60}}), 10, 40);
    return;
  }
  // default (C01-style) workload
  std::vector<int> w = weights({{S_REQ, 30}, {S_ADV, 42}, {S_CANCEL, 2}, {S_STALL, 3}, {S_NETOP, 8}, {S_FAULT, 10}, {S_CHUNK, 3}, {S_PARTITION, 2}});
  if (!c.faults) { w[S_NETOP] = 0; w[S_FAULT] = 0; w[S_PARTITION] = 0; w[S_CHUNK] = 0; }
  gen_plan_generic(c, r, plan, w, 20, 140);
}

void profile_attach(Run &run) { profile_attach_more(run); }
