#pragma once
#include "run.h"
void profile_cfg_more(const std::string &prof, uint64_t seed, RunCfg &c, Rng &r);
bool profile_plan_more(const RunCfg &c, Rng &r, std::vector<Step> &plan);   // true if it generated the plan
void profile_attach_more(Run &run);
// non-trivial rule per profile (for evidence)
bool profile_nontrivial(const Run &run);
const char *profile_rule(const std::string &prof);
