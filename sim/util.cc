#include "util.h"
#include <stdlib.h>
#include <ctype.h>

namespace {
struct P {
  const std::string &s;
  size_t i = 0;
  explicit P(const std::string &t) : s(t) {}
  void ws() { while (i < s.size() && isspace((unsigned char)s[i])) i++; }
  bool val(JV &v) {
    ws();
    if (i >= s.size()) return false;
    char c = s[i];
    if (c == '{') {
      v.t = JV::OBJ; i++; ws();
      if (i < s.size() && s[i] == '}') { i++; return true; }
      while (true) {
        JV k; ws();
        if (!str(k.str)) return false;
        ws(); if (i >= s.size() || s[i] != ':') return false; i++;
        JV x; if (!val(x)) return false;
        v.o.emplace_back(k.str, std::move(x));
        ws(); if (i >= s.size()) return false;
        if (s[i] == ',') { i++; continue; }
        if (s[i] == '}') { i++; return true; }
        return false;
      }
    }
    if (c == '[') {
      v.t = JV::ARR; i++; ws();
      if (i < s.size() && s[i] == ']') { i++; return true; }
      while (true) {
        JV x; if (!val(x)) return false;
        v.a.push_back(std::move(x));
        ws(); if (i >= s.size()) return false;
        if (s[i] == ',') { i++; continue; }
        if (s[i] == ']') { i++; return true; }
        return false;
      }
    }
    if (c == '"') { v.t = JV::STR; return str(v.str); }
    if (!strncmp(s.c_str() + i, "true", 4)) { v.t = JV::BOOL; v.b = true; i += 4; return true; }
    if (!strncmp(s.c_str() + i, "false", 5)) { v.t = JV::BOOL; v.b = false; i += 5; return true; }
    if (!strncmp(s.c_str() + i, "null", 4)) { v.t = JV::NUL; i += 4; return true; }
    char *e = nullptr;
    v.num = strtod(s.c_str() + i, &e);
    if (e == s.c_str() + i) return false;
    v.i = strtoll(s.c_str() + i, nullptr, 10);
    v.t = JV::NUM;
    i = (size_t)(e - s.c_str());
    return true;
  }
  bool str(std::string &out) {
    if (i >= s.size() || s[i] != '"') return false;
    i++;
    while (i < s.size() && s[i] != '"') {
      if (s[i] == '\\' && i + 1 < s.size()) {
        char c = s[i + 1];
        if (c == 'u' && i + 5 < s.size()) {
          unsigned v = (unsigned)strtoul(s.substr(i + 2, 4).c_str(), nullptr, 16);
          out += (char)(v & 0xff);
          i += 6;
          continue;
        }
        if (c == 'n') out += '\n'; else if (c == 't') out += '\t'; else if (c == 'r') out += '\r'; else out += c;
        i += 2;
      } else out += s[i++];
    }
    if (i >= s.size()) return false;
    i++;
    return true;
  }
};
}  // namespace

bool json_parse(const std::string &text, JV &out) {
  P p(text);
  return p.val(out);
}

std::string hexs(const std::string &b) {
  static const char *d = "0123456789abcdef";
  std::string o;
  for (unsigned char c : b) { o += d[c >> 4]; o += d[c & 15]; }
  return o;
}
std::string unhex(const std::string &h) {
  std::string o;
  for (size_t i = 0; i + 1 < h.size(); i += 2) o += (char)strtoul(h.substr(i, 2).c_str(), nullptr, 16);
  return o;
}
